/* C07, bulk synchronisation: the cross-type assignment  template <class S> SPxLPBase<R>& SPxLPBase<R>::operator=(const SPxLPBase<S>&)
 * and the cross-type copy constructor of src/soplex/spxlpbase.h (real body / real initialiser list, verbatim), and
 * SoPlexBase<R>::_syncLPRational(bool), _syncLPReal(bool), _ensureRationalLP() of src/soplex.hpp (real bodies) which use them.
 *
 * The stub class SPxLPBase<T> declares its DATA MEMBERS by #including the declarations cut verbatim out of the real class
 * (block "@name Data", `SPxOut* spxout;`, `std::shared_ptr<Tolerances> _tolerances;`), so the member list is the real one;
 * a scan of the whole class for a data-member declaration with a name outside that list feeds K_UNKNOWN_DATA_MEMBER, which a
 * postcondition requires to be empty.  Row set and column set are the two named bases; their cross-type assignment /
 * construction are ghost recorders that copy an identity tag.  README 16: both bases have the identical layout { Shared* d; }
 * and work through d only (CBMC adjusts neither `this` nor a reference argument for the second base).
 * The member template (template <class S>) cannot be compiled by goto-cc; the host is the non-template overload with
 * S = "the other number type" (Other<T>::type), which is the only instantiation the library uses (R = double, S = Rational
 * and vice versa).  Rational = long long, Rational(double) = exact order embedding, double(Rational) = uninterpreted rounding. */
#include "verif.h"
#include "ghosts.h"
extern "C" {
long long verif_toRat(double d);      /* contract.c */
double verif_toReal(long long q);     /* contract.c: uninterpreted, never NaN */
}
typedef double Real;
struct SPxOut { int verbosity; };
struct Tolerances { double eps; };
namespace std { template <class T> struct shared_ptr { T* p; shared_ptr() : p(0) {} }; }
#define SPX_MSG_INFO3(...)
template <class T> struct SPxLPBase;
/* SPxScaler<T>::unscale(lp): "turns every stored cell into its unscaled value and clears _isScaled" (it leaves lp.lp_scaler alone, as the
 * real one: conformance-checked).  On identity tags: the scaler knows the tag pair of the storage it scaled (s_*) and the tag pair of the
 * user's numbers (u_*); unscaling anything else yields garbage. */
template <class T> struct SPxScaler
{
   long long s_rt, s_ct, u_rt, u_ct;
   void unscale(SPxLPBase<T>& lp)
   {
      g_unscale_calls++; g_unscale_seq = ++g_seq; g_unscale_obj = &lp;
      lp.sh.rtag = (lp.sh.rtag == s_rt) ? u_rt : 0x5ca1ab1e0badLL;
      lp.sh.ctag = (lp.sh.ctag == s_ct) ? u_ct : 0x5ca1ab1e0badLL;
      lp._isScaled = false;
   }
};

struct Rational
{
   long long v;
   Rational() : v(0) {}
   Rational(int i) : v(0) { if(i != 0) v = verif_toRat((double)i); }
   Rational(const double& d) { v = verif_toRat(d); }
   operator double() const { return verif_toReal(v); }
};
template <class T> struct Other;
template <> struct Other<double> { typedef Rational type; };
template <> struct Other<Rational> { typedef double type; };

/* what the two set bases share: identity tags of the row file and the column file (equal tags = "is the converted image of") */
struct LPShared { long long rtag; long long ctag; };

template <class T> struct LPRowSetBase
{
   typedef typename Other<T>::type S;
   LPShared* d;
   LPRowSetBase() : d(0) {}
   LPRowSetBase(const LPRowSetBase<T>& o) : d(0) { g_row_copy++; g_rowcopy_src = o.d->rtag; }
   LPRowSetBase(const LPRowSetBase<S>& o) : d(0) { g_row_ctor++; g_rowctor_src = o.d->rtag; }
   LPRowSetBase<T>& operator=(const LPRowSetBase<S>& o) { g_row_asg++; g_row_seq = ++g_seq; g_row_src = o.d->rtag; d->rtag = o.d->rtag; return *this; }
};
template <class T> struct LPColSetBase
{
   typedef typename Other<T>::type S;
   LPShared* d;
   LPColSetBase() : d(0) {}
   LPColSetBase(const LPColSetBase<T>& o) : d(0) { g_col_copy++; g_colcopy_src = o.d->ctag; }
   LPColSetBase(const LPColSetBase<S>& o) : d(0) { g_col_ctor++; g_colctor_src = o.d->ctag; }
   LPColSetBase<T>& operator=(const LPColSetBase<S>& o) { g_col_asg++; g_col_seq = ++g_seq; g_col_src = o.d->ctag; d->ctag = o.d->ctag; return *this; }
};

/* README 17: constructors of class templates are only synthesised for uses that textually follow a plain automatic object / copy */
static inline void force_bases() { LPRowSetBase<double> a; LPRowSetBase<double> a2(a); LPColSetBase<double> b; LPColSetBase<double> b2(b); LPRowSetBase<Rational> c; LPRowSetBase<Rational> c2(c); LPColSetBase<Rational> d; LPColSetBase<Rational> d2(d); }
template <class T> struct SPxLPBase : LPRowSetBase<T>, LPColSetBase<T>
{
   typedef T R;
   typedef typename Other<T>::type S;
#include "SPxSense.inc"
   /* ---- the data members of the real class, verbatim */
#include "SPxLPBase_data.inc"
#include "SPxLPBase_spxout.inc"
#include "SPxLPBase_tolerances.inc"
   /* ---- model storage behind the two bases */
   LPShared sh;
   void bind() { LPRowSetBase<T>::d = &sh; LPColSetBase<T>::d = &sh; }
   /* default constructor = clear() of the real class: empty sets, MAXIMIZE, offset 0, not scaled, no scaler */
   void reset() { bind(); sh.rtag = 0; sh.ctag = 0; thesense = MAXIMIZE; offset = T(0); _isScaled = false; lp_scaler = 0; spxout = 0; _tolerances.p = 0; }
   SPxLPBase() { reset(); }
   /* ---- same-type copy constructor: the real initialiser list and the real body.  The two base copies are recorders (README 16); the
    * prologue gives the new object the storage identity they were handed (stale ghosts if the initialiser list stops copying a base). */
   SPxLPBase(const SPxLPBase<R>& old)
#include "ctor_copy_init.inc"
   {
      g_copy_calls++; g_copy_src = &old; bind(); sh.rtag = g_rowcopy_src; sh.ctag = g_colcopy_src; g_rowcopy_src = 0; g_colcopy_src = 0;
      {
#include "ctor_copy.inc"
      }
   }
   /* ---- unscaleLP(): the real body (spxlpbase_real.hpp) */
   void unscaleLP()
   {
#include "unscaleLP.inc"
   }
   bool isConsistent() const { return true; }
   bool isScaled() const { return _isScaled; }
   void setOutstream(SPxOut& newOutstream) { spxout = &newOutstream; }
   void setTolerances(std::shared_ptr<Tolerances> tolerances) { this->_tolerances = tolerances; }

   /* ---- cross-type assignment: the real body */
   SPxLPBase<R>& operator=(const SPxLPBase<S>& old)
   {
      g_asg_calls++; g_asg_seq = ++g_seq; g_asg_dst = this; g_asg_src = &old; g_asg_src_scaled = (old.lp_scaler != 0) ? 1 : 0;
      {
#include "assign_cross.inc"
      }
   }
#ifdef WITH_CTOR
   /* ---- cross-type copy constructor: the real initialiser list and the real body */
   SPxLPBase(const SPxLPBase<S>& old)
#include "ctor_cross_init.inc"
   {
      g_ctor_calls++; g_ctor_src = &old; bind();
      {
#include "ctor_cross.inc"
      }
   }
#endif
};
typedef SPxLPBase<Rational> SPxLPRational;
static inline void force_synthesis() { LPRowSetBase<double> a; LPColSetBase<double> b; LPRowSetBase<Rational> c; LPColSetBase<Rational> d; SPxLPBase<double> e; SPxLPBase<Rational> f; }

/* ------------------------------------------------------------------------------------------ SoPlexBase side */
struct Timer
{
   void start() { g_tstart++; g_tstart_seq = ++g_seq; }
   void stop() { g_tstop++; g_tstop_seq = ++g_seq; }
};
struct Statistics { Timer* syncTime; };
struct SLUFactorRational { void clear() { g_lu_clear++; g_lu_seq = ++g_seq; } };
template <class T> struct SPxSolverBase
{
   void loadLP(const SPxLPBase<T>& LP, bool initSlackBasis = true)
   {
      g_load_calls++; g_load_seq = ++g_seq; g_load_initslack = initSlackBasis ? 1 : 0;
      g_load_sense = (int)LP.thesense; g_load_offset = LP.offset; g_load_scaled = LP._isScaled ? 1 : 0; g_load_scaler_null = (LP.lp_scaler == 0) ? 1 : 0;
      g_load_spxout = LP.spxout; g_load_tol = LP._tolerances.p;
   }
};
/* spx_alloc(p): hands out the memory the wrapper provides; placement new: `new(p) SPxLPRational()` is rewritten by the macro below
 * into `verif_pnew(p) << SPxLPRational()`, which default-initialises *p (new / placement new are undefined under dfcc) */
inline void spx_alloc(SPxLPRational*& p, int n = 1) { g_alloc_calls++; p = (SPxLPRational*)gp_store; }
struct PNew { SPxLPRational* p; };
inline PNew verif_pnew(SPxLPRational* p) { PNew n; n.p = p; return n; }
inline SPxLPRational* operator<<(PNew n, const SPxLPRational& fresh) { g_pnew_calls++; g_pnew_at = n.p; n.p->reset(); return n.p; }

typedef double R;
template <class T> struct SoPlexBase { int names_only; };
struct Host : SoPlexBase<R>
{
   SPxOut spxout;
   Statistics* _statistics;
   SPxSolverBase<R> _solver;
   SPxLPBase<R>* _realLP;
   SPxLPRational* _rationalLP;
   SLUFactorRational _rationalLUSolver;
   std::shared_ptr<Tolerances> _tolerances;
   bool _isRealLPLoaded, _hasBasis, _isRealLPScaled, _hasSolReal, _hasSolRational;
   int _status;
   std::shared_ptr<Tolerances> tolerances() const { return *(std::shared_ptr<Tolerances>*)&_tolerances; }
   void _recomputeRangeTypesRational() { g_recomp_calls++; g_recomp_seq = ++g_seq; }
   void _recomputeRangeTypesReal() { }
   void _ensureRationalLP()
   {
#define new(p) verif_pnew(p) <<
#include "_ensureRationalLP.inc"
#undef new
   }
#ifdef WITH_SYNC
   void _syncLPRational(bool time = true)
   {
#include "_syncLPRational.inc"
   }
   /* front end: the C-style cast `(SPxLPBase<R>)(*_rationalLP)` is lowered to an unsupported "temporary_object" side effect (cbmc aborts);
    * the two macros rewrite the argument `(T)(e)` of loadLP into the functional cast `T(e)` - the same explicit conversion through the
    * converting constructor.  An argument of another shape does not compile (undecided), it is never mis-modelled. */
   void _syncLPReal(bool time = true)
   {
#define VERIF_CONV(T) T
#define loadLP(arg) loadLP(VERIF_CONV arg)
#include "_syncLPReal.inc"
#undef loadLP
#undef VERIF_CONV
   }
#endif
};

/* ------------------------------------------------------------------------------------------ wrappers */
/* out[0] sense, out[1] _isScaled, out[2] lp_scaler == nullptr, out[3] spxout is the source's, out[4] tolerances are the source's,
 * out[5]/out[6] row/column tag; *off_d / *off_q the offset (double / rational target) */
#define SENSE_OF(T, s) ((s) > 0 ? SPxLPBase<T>::MAXIMIZE : SPxLPBase<T>::MINIMIZE)
#define EXPORT(lp, o, t) { out[0] = (int)(lp).thesense; out[1] = (lp)._isScaled ? 1 : 0; out[2] = ((lp).lp_scaler == 0) ? 1 : 0; out[3] = ((lp).spxout == (o)) ? 1 : 0; \
      out[4] = ((lp)._tolerances.p == (t)) ? 1 : 0; out[5] = (lp).sh.rtag; out[6] = (lp).sh.ctag; }

#ifdef INST_assign_q_from_d
extern "C" void w_assign(int sense, double off_d, long long off_q, int scaled, int has_scaler, int self, int tsense, int tscaled, long long rt, long long ct, long long* out, double* off_out_d, long long* off_out_q)
{
   SPxOut o, o2; Tolerances t, t2; SPxScaler<double> sc; SPxScaler<Rational> sc2;
   SPxLPBase<double> a; SPxLPBase<Rational> b;
   a.sh.rtag = rt; a.sh.ctag = ct; a.thesense = SENSE_OF(double, sense); a.offset = off_d; a._isScaled = scaled != 0; a.lp_scaler = has_scaler ? &sc : 0; a.spxout = &o; a._tolerances.p = &t;
   b.sh.rtag = ~rt; b.sh.ctag = ~ct; b.thesense = SENSE_OF(Rational, tsense); b.offset.v = off_q; b._isScaled = tscaled != 0; b.lp_scaler = &sc2; b.spxout = &o2; b._tolerances.p = &t2;
   b = a;
   EXPORT(b, &o, &t) *off_out_q = b.offset.v; *off_out_d = 0;
}
#endif
#ifdef INST_assign_d_from_q
extern "C" void w_assign(int sense, double off_d, long long off_q, int scaled, int has_scaler, int self, int tsense, int tscaled, long long rt, long long ct, long long* out, double* off_out_d, long long* off_out_q)
{
   SPxOut o, o2; Tolerances t, t2; SPxScaler<Rational> sc; SPxScaler<double> sc2;
   SPxLPBase<Rational> a; SPxLPBase<double> b;
   a.sh.rtag = rt; a.sh.ctag = ct; a.thesense = SENSE_OF(Rational, sense); a.offset.v = off_q; a._isScaled = scaled != 0; a.lp_scaler = has_scaler ? &sc : 0; a.spxout = &o; a._tolerances.p = &t;
   b.sh.rtag = ~rt; b.sh.ctag = ~ct; b.thesense = SENSE_OF(double, tsense); b.offset = off_d; b._isScaled = tscaled != 0; b.lp_scaler = &sc2; b.spxout = &o2; b._tolerances.p = &t2;
   b = a;
   EXPORT(b, &o, &t) *off_out_d = b.offset; *off_out_q = 0;
}
#endif
#ifdef INST_ctor_d_from_q
extern "C" void w_assign(int sense, double off_d, long long off_q, int scaled, int has_scaler, int self, int tsense, int tscaled, long long rt, long long ct, long long* out, double* off_out_d, long long* off_out_q)
{
   SPxOut o; Tolerances t; SPxScaler<Rational> sc;
   SPxLPBase<Rational> a;
   a.sh.rtag = rt; a.sh.ctag = ct; a.thesense = SENSE_OF(Rational, sense); a.offset.v = off_q; a._isScaled = scaled != 0; a.lp_scaler = has_scaler ? &sc : 0; a.spxout = &o; a._tolerances.p = &t;
   SPxLPBase<double> b(a);
   EXPORT(b, &o, &t) *off_out_d = b.offset; *off_out_q = 0;
}
#endif
#ifdef INST_ctor_q_from_d
extern "C" void w_assign(int sense, double off_d, long long off_q, int scaled, int has_scaler, int self, int tsense, int tscaled, long long rt, long long ct, long long* out, double* off_out_d, long long* off_out_q)
{
   SPxOut o; Tolerances t; SPxScaler<double> sc;
   SPxLPBase<double> a;
   a.sh.rtag = rt; a.sh.ctag = ct; a.thesense = SENSE_OF(double, sense); a.offset = off_d; a._isScaled = scaled != 0; a.lp_scaler = has_scaler ? &sc : 0; a.spxout = &o; a._tolerances.p = &t;
   SPxLPBase<Rational> b(a);
   EXPORT(b, &o, &t) *off_out_q = b.offset.v; *off_out_d = 0;
}
#endif

#ifdef WITH_HOST
/* which: 0 _syncLPRational(time), 1 _syncLPReal(time), 2 _ensureRationalLP().  have_rat: _rationalLP != nullptr on entry.
 * out[0..6] describe the TARGET LP afterwards (rational LP for 0 and 2, real LP for 1), out[7] _hasBasis, out[8] _rationalLP is the
 * pre-existing object, out[9] _rationalLP is the memory spx_alloc handed out, out[10] _rationalLP == nullptr */
extern "C" void w_sync(int which, int time, int have_rat, int loaded, int hasBasis, int sense, double off_d, long long off_q, int scaled, int has_scaler,
                       int tsense, int tscaled, long long rt, long long ct, long long urt, long long uct, long long* out, double* off_out_d, long long* off_out_q)
{
   SPxOut o_src; Tolerances t_src, t_host; SPxScaler<double> scd; SPxScaler<Rational> scq; Timer tm; Statistics st;
   SPxLPBase<double> real; SPxLPBase<Rational> rat, fresh_store;
   Host h;
   st.syncTime = &tm; h._statistics = &st; h._tolerances.p = &t_host; h._realLP = &real; h._rationalLP = have_rat ? &rat : 0;
   h._isRealLPLoaded = loaded != 0; h._hasBasis = hasBasis != 0; h._isRealLPScaled = scaled != 0; h._hasSolReal = false; h._hasSolRational = false; h._status = 0;
   gp_store = &fresh_store;
   /* the real LP's scaler scaled the user's LP (urt, uct) into the storage (rt, ct) */
   scd.s_rt = rt; scd.s_ct = ct; scd.u_rt = urt; scd.u_ct = uct; scq.s_rt = rt; scq.s_ct = ct; scq.u_rt = urt; scq.u_ct = uct;
   /* garbage in the memory spx_alloc hands out: placement new must initialise it */
   fresh_store.sh.rtag = ~rt; fresh_store.sh.ctag = ~ct; fresh_store._isScaled = true; fresh_store.lp_scaler = &scq; fresh_store.spxout = &o_src; fresh_store._tolerances.p = &t_src; fresh_store.offset.v = 77;
#if defined(INST_syncLPRational) || defined(INST_ensureRationalLP)
   /* source: the real LP; target: the rational LP (arbitrary previous content) */
   real.sh.rtag = rt; real.sh.ctag = ct; real.thesense = SENSE_OF(double, sense); real.offset = off_d; real._isScaled = scaled != 0; real.lp_scaler = has_scaler ? &scd : 0; real.spxout = &o_src; real._tolerances.p = &t_src;
   rat.sh.rtag = ~rt; rat.sh.ctag = ~ct; rat.thesense = SENSE_OF(Rational, tsense); rat.offset.v = off_q; rat._isScaled = tscaled != 0; rat.lp_scaler = &scq; rat.spxout = &h.spxout; rat._tolerances.p = &t_host;
#else
   /* source: the rational LP; target: the real LP */
   rat.sh.rtag = rt; rat.sh.ctag = ct; rat.thesense = SENSE_OF(Rational, sense); rat.offset.v = off_q; rat._isScaled = scaled != 0; rat.lp_scaler = has_scaler ? &scq : 0; rat.spxout = &o_src; rat._tolerances.p = &t_src;
   real.sh.rtag = ~rt; real.sh.ctag = ~ct; real.thesense = SENSE_OF(double, tsense); real.offset = off_d; real._isScaled = tscaled != 0; real.lp_scaler = &scd; real.spxout = &h.spxout; real._tolerances.p = &t_host;
#endif
#ifdef INST_syncLPRational
   h._syncLPRational(time != 0);
   { SPxLPRational& tg = *h._rationalLP; EXPORT(tg, &o_src, &t_src) *off_out_q = tg.offset.v; }
   out[11] = (g_asg_dst == (const void*)h._rationalLP && g_asg_src == (const void*)&real) ? 1 : 0;
   out[12] = (g_asg_dst == (const void*)h._rationalLP) ? 1 : 0; out[13] = (g_copy_src == (const void*)&real) ? 1 : 0; out[14] = (g_unscale_obj == (const void*)&real) ? 1 : 0;
   /* frame: the floating-point LP after the call */
   out[16] = real.sh.rtag; out[17] = real.sh.ctag; out[18] = real._isScaled ? 1 : 0; out[19] = (real.lp_scaler == (has_scaler ? &scd : (SPxScaler<double>*)0)) ? 1 : 0;
   out[20] = (int)real.thesense; out[21] = (real.spxout == &o_src && real._tolerances.p == &t_src) ? 1 : 0; *off_out_d = real.offset;
#endif
#ifdef INST_syncLPReal
   h._syncLPReal(time != 0);
   EXPORT(real, &o_src, &t_src) *off_out_d = real.offset; *off_out_q = 0;
   out[11] = (g_asg_dst == (const void*)&real && g_asg_src == (const void*)&rat) ? 1 : 0;
   out[12] = (g_ctor_src == (const void*)&rat) ? 1 : 0; out[13] = (g_load_spxout == (const void*)&o_src) ? 1 : 0; out[14] = (g_load_tol == (const void*)&t_src) ? 1 : 0;
#endif
#ifdef INST_ensureRationalLP
   h._ensureRationalLP();
   if(h._rationalLP != 0) { SPxLPRational& tg = *h._rationalLP; EXPORT(tg, &h.spxout, &t_host) *off_out_q = tg.offset.v; *off_out_d = 0; }
   out[11] = 0;
#endif
   out[7] = h._hasBasis ? 1 : 0; out[8] = (h._rationalLP == &rat) ? 1 : 0; out[9] = (h._rationalLP == &fresh_store) ? 1 : 0; out[10] = (h._rationalLP == 0) ? 1 : 0;
}
#endif
