/* Ghost globals of unit lp_assign.  Defined in contract.c (C), declared extern "C" in unit.cpp. */
#ifdef __cplusplus
extern "C" {
#define GH_EXTERN extern
#else
#define GH_EXTERN
#endif
GH_EXTERN int g_seq;                  /* global call clock */
/* cross-type assignment / construction of the two set bases (ghost recorders): calls, clock, identity of the source */
GH_EXTERN int g_row_asg;  GH_EXTERN int g_row_seq;  GH_EXTERN long long g_row_src;
GH_EXTERN int g_col_asg;  GH_EXTERN int g_col_seq;  GH_EXTERN long long g_col_src;
GH_EXTERN int g_row_ctor; GH_EXTERN long long g_rowctor_src;
GH_EXTERN int g_col_ctor; GH_EXTERN long long g_colctor_src;
/* SPxLPBase<R>::operator=(const SPxLPBase<S>&) (real body): calls, clock, target, source; was the source scaled (the body's assert) */
GH_EXTERN int g_asg_calls; GH_EXTERN int g_asg_seq; GH_EXTERN const void* g_asg_dst; GH_EXTERN const void* g_asg_src; GH_EXTERN int g_asg_src_scaled;
/* SPxLPBase<R>(const SPxLPBase<S>&) (real initialiser list and body): calls, source */
GH_EXTERN int g_ctor_calls; GH_EXTERN const void* g_ctor_src;
/* same-type copy: SPxLPBase<R>(const SPxLPBase<R>&) (real initialiser list and body) over recorder bases; SPxScaler<R>::unscale(lp) */
GH_EXTERN int g_row_copy; GH_EXTERN long long g_rowcopy_src; GH_EXTERN int g_col_copy; GH_EXTERN long long g_colcopy_src;
GH_EXTERN int g_copy_calls; GH_EXTERN const void* g_copy_src;
GH_EXTERN int g_unscale_calls; GH_EXTERN int g_unscale_seq; GH_EXTERN const void* g_unscale_obj;
/* SoPlexBase callees */
GH_EXTERN int g_recomp_calls; GH_EXTERN int g_recomp_seq;      /* _recomputeRangeTypesRational() */
GH_EXTERN int g_lu_clear; GH_EXTERN int g_lu_seq;              /* _rationalLUSolver.clear() */
GH_EXTERN int g_tstart; GH_EXTERN int g_tstart_seq; GH_EXTERN int g_tstop; GH_EXTERN int g_tstop_seq;   /* _statistics->syncTime */
GH_EXTERN int g_alloc_calls; GH_EXTERN int g_pnew_calls; GH_EXTERN const void* g_pnew_at;           /* spx_alloc + placement new */
GH_EXTERN void* gp_store;                                      /* the memory spx_alloc hands out */
GH_EXTERN int g_load_calls; GH_EXTERN int g_load_seq;          /* _solver.loadLP(lp): calls and what the LP handed over looked like */
GH_EXTERN int g_load_sense; GH_EXTERN int g_load_scaled; GH_EXTERN int g_load_scaler_null; GH_EXTERN int g_load_initslack;
GH_EXTERN double g_load_offset; GH_EXTERN const void* g_load_spxout; GH_EXTERN const void* g_load_tol;
#ifdef __cplusplus
}
#endif
