// regression driver: before the repair _syncLPRational copied the SCALED storage of the floating-point LP (persistent scaling) into the rational LP; exit 0 on the fixed tree.
// build: g++ -std=c++14 -DNDEBUG -I/repo/src -I/repo/_build native_sync_scaled.cpp /repo/_build/lib/libsoplex.a -lgmp -lmpfr -lz -ltbb   (exit 1 = deviation shown;
// without -DNDEBUG the run aborts on assert(old.lp_scaler == nullptr), spxlpbase.h:2919)
#include "soplex.h"
#include <cstdio>
using namespace soplex;
int main()
{
   SoPlex s;
   s.setIntParam(SoPlex::VERBOSITY, 0);
   s.setIntParam(SoPlex::SIMPLIFIER, SoPlex::SIMPLIFIER_OFF);
   DSVectorReal c(0);
   for(int j = 0; j < 3; j++) s.addColReal(LPColReal(1.0 + j, c, 10.0, 0.0));
   double scl[3] = {1e4, 1e-3, 1.0};
   for(int i = 0; i < 3; i++) { DSVectorReal r(3); for(int j = 0; j < 3; j++) r.add(j, scl[i] * (1 + ((i + j) % 3))); s.addRowReal(LPRowReal(-infinity, r, scl[i] * 12.0)); }
   s.setIntParam(SoPlex::OBJSENSE, SoPlex::OBJSENSE_MAXIMIZE);
   s.optimize();
   printf("status %d obj %g, real LP scaled? (rhsReal: %g %g %g)\n", (int)s.status(), s.objValueReal(), s.rhsReal(0), s.rhsReal(1), s.rhsReal(2));
   s.setIntParam(SoPlex::SYNCMODE, SoPlex::SYNCMODE_AUTO);   // -> _syncLPRational()
   int bad = 0;
   for(int i = 0; i < 3; i++)
   {
      double q = (double)s.rhsRational(i);
      printf("row %d: rhsReal = %.17g  rhsRational = %.17g %s\n", i, s.rhsReal(i), q, q == s.rhsReal(i) ? "" : "DIFFER");
      if(q != s.rhsReal(i)) bad++;
      const SVectorRational& rv = s.rowVectorRational(i);
      DSVectorReal rowr; s.getRowVectorReal(i, rowr);
      for(int k = 0; k < rv.size(); k++) { double a = (double)rv.value(k); double b = rowr[rv.index(k)]; if(a != b) { printf("   coef (%d,%d): real %.17g rational %.17g DIFFER\n", i, rv.index(k), b, a); bad++; } }
   }
   return bad != 0;
}
