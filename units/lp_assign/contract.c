/* Contracts of unit lp_assign (property C07, mechanism "bulk synchronisation").
 *
 * From the property statement ("the floating-point LP is [the rational LP's] coefficient-wise image; dimensions, sense and
 * offset agree.  In manual mode the two explicit sync calls establish the same relation, and in real-only mode an exact solve
 * first copies the floating-point LP exactly"):  after  target = source  EVERY piece of LP state of the target is the
 * (converted) source's - one clause per data member of class SPxLPBase, plus a clause that the class has no further data
 * member (K_UNKNOWN_DATA_MEMBER, scanned from the class declaration on every run, must be empty). */
#include "verif_c.h"
#include "constants.h"
#include "ghosts.h"

void verif_throw(void) {}

/* ---- number model (as unit lpmod): Rational = long long; Rational(double) = exact order embedding; double(Rational) = uninterpreted */
double __CPROVER_uninterpreted_toReal(long long);
long long verif_toRat(double d)
{
   union { double d; long long b; } u;
   u.d = d;
   return u.b >= 0 ? u.b : -(u.b & 0x7fffffffffffffffLL);
}
double verif_toReal(long long q)
{
   double r = __CPROVER_uninterpreted_toReal(q);
   __CPROVER_assume(r == r);
   return r;
}
#define TORAT(x) verif_toRat(x)
#define TOREAL(q) __CPROVER_uninterpreted_toReal(q)
#define FINITE(x) (-1.7976931348623157e308 <= (x) && (x) <= 1.7976931348623157e308)
#define QMAX 0x7fe0000000000000LL
#define QOK(q) (-QMAX <= (q) && (q) <= QMAX)
#define B01(x) ((x) == 0 || (x) == 1)
#define STR_(x) #x
#define STR(x) STR_(x)
/* "the class SPxLPBase declares no data member besides thesense, offset, _isScaled, lp_scaler, spxout, _tolerances" */
#define MEMBER_LIST_COMPLETE (sizeof(STR(K_UNKNOWN_DATA_MEMBER)) == 1)
#define SENSE(s) ((s) > 0 ? 1 : -1)

#define ASSIGNS_GHOSTS g_seq, g_row_asg, g_row_seq, g_row_src, g_col_asg, g_col_seq, g_col_src, g_row_ctor, g_rowctor_src, g_col_ctor, g_colctor_src, \
   g_asg_calls, g_asg_seq, g_asg_dst, g_asg_src, g_asg_src_scaled, g_ctor_calls, g_ctor_src, g_row_copy, g_rowcopy_src, g_col_copy, g_colcopy_src, \
   g_copy_calls, g_copy_src, g_unscale_calls, g_unscale_seq, g_unscale_obj, g_recomp_calls, g_recomp_seq, g_lu_clear, g_lu_seq, \
   g_tstart, g_tstart_seq, g_tstop, g_tstop_seq, g_alloc_calls, g_pnew_calls, g_pnew_at, gp_store, g_load_calls, g_load_seq, g_load_sense, g_load_scaled, \
   g_load_scaler_null, g_load_initslack, g_load_offset, g_load_spxout, g_load_tol, \
   __CPROVER_object_whole(out), *off_out_d, *off_out_q
#define REQ_ZERO \
   __CPROVER_requires(g_seq == 0 && g_row_asg == 0 && g_col_asg == 0 && g_row_ctor == 0 && g_col_ctor == 0 && g_asg_calls == 0 && g_ctor_calls == 0) \
   __CPROVER_requires(g_row_copy == 0 && g_col_copy == 0 && g_copy_calls == 0 && g_unscale_calls == 0 && g_rowcopy_src == 0 && g_colcopy_src == 0 && g_recomp_calls == 0 && g_lu_clear == 0 && g_tstart == 0 && g_tstop == 0 && g_alloc_calls == 0 && g_pnew_calls == 0 && g_load_calls == 0)
#define REQ_ARGS \
   __CPROVER_requires(B01(scaled) && B01(has_scaler) && B01(tscaled) && FINITE(off_d) && QOK(off_q)) \
   __CPROVER_requires(__CPROVER_is_fresh(out, 24 * sizeof(long long)) && __CPROVER_is_fresh(off_out_d, sizeof(double)) && __CPROVER_is_fresh(off_out_q, sizeof(long long)))

/* the target's members after the copy; OFFSET_OK is the direction-specific clause for `offset`; SRC_RT / SRC_CT / SRC_SCALED: identity of the
 * source's row file / column file and its scaling flag (instances override them: _syncLPRational's source is the USER's LP) */
#ifdef INST_syncLPRational
#define SRC_RT (scaled ? urt : rt)
#define SRC_CT (scaled ? uct : ct)
#define SRC_SCALED 0
#else
#define SRC_RT rt
#define SRC_CT ct
#define SRC_SCALED scaled
#endif
#define TARGET_IS_SOURCE \
   __CPROVER_ensures(out[5] == SRC_RT)                  /* row set (LPRowSetBase<R> part) */ \
   __CPROVER_ensures(out[6] == SRC_CT)                  /* column set (LPColSetBase<R> part) */ \
   __CPROVER_ensures(out[0] == SENSE(sense))            /* thesense */ \
   __CPROVER_ensures(OFFSET_OK)                         /* offset, converted */ \
   __CPROVER_ensures(out[1] == SRC_SCALED)              /* _isScaled */ \
   __CPROVER_ensures(out[2] == 1)                       /* lp_scaler: documented exception - a scaler object is typed on R and is never shared across number types: always nullptr (equal to the source's under the body's assert(old.lp_scaler == nullptr)) */ \
   __CPROVER_ensures(out[3] == 1)                       /* spxout */ \
   __CPROVER_ensures(out[4] == 1)                       /* _tolerances */ \
   __CPROVER_ensures(MEMBER_LIST_COMPLETE)              /* no data member outside the list above */

#if defined(INST_assign_q_from_d) || defined(INST_ctor_q_from_d)
#define OFFSET_OK (*off_out_q == TORAT(off_d))
#endif
#if defined(INST_assign_d_from_q) || defined(INST_ctor_d_from_q)
#define OFFSET_OK (*off_out_d == TOREAL(off_q))
#endif

#define PARAMS_A int sense, double off_d, long long off_q, int scaled, int has_scaler, int self, int tsense, int tscaled, long long rt, long long ct, long long* out, double* off_out_d, long long* off_out_q
#if defined(INST_assign_q_from_d) || defined(INST_assign_d_from_q)
/* template <class S> SPxLPBase<R>& SPxLPBase<R>::operator=(const SPxLPBase<S>& old) */
void w_assign(PARAMS_A)
REQ_ZERO
REQ_ARGS
__CPROVER_assigns(ASSIGNS_GHOSTS)
__CPROVER_ensures(g_asg_calls == 1 && g_row_asg == 1 && g_row_src == rt && g_col_asg == 1 && g_col_src == ct && g_row_ctor == 0 && g_col_ctor == 0)
TARGET_IS_SOURCE
;
#endif
#if defined(INST_ctor_q_from_d) || defined(INST_ctor_d_from_q)
/* template <class S> SPxLPBase<R>::SPxLPBase(const SPxLPBase<S>& old) */
void w_assign(PARAMS_A)
REQ_ZERO
REQ_ARGS
__CPROVER_assigns(ASSIGNS_GHOSTS)
__CPROVER_ensures(g_ctor_calls == 1 && g_row_ctor == 1 && g_rowctor_src == rt && g_col_ctor == 1 && g_colctor_src == ct && g_asg_calls == 0)
__CPROVER_ensures(out[0] == SENSE(sense))
__CPROVER_ensures(OFFSET_OK)
__CPROVER_ensures(out[1] == scaled)
__CPROVER_ensures(out[2] == 1)
__CPROVER_ensures(out[3] == 1)
__CPROVER_ensures(out[4] == 1)
__CPROVER_ensures(MEMBER_LIST_COMPLETE)
;
#endif
#if defined(INST_assign_q_from_d) || defined(INST_assign_d_from_q) || defined(INST_ctor_q_from_d) || defined(INST_ctor_d_from_q)
void h_assign(void)
{
   int sense, scaled, has_scaler, self, tsense, tscaled; double off_d; long long off_q, rt, ct; long long* out; double* off_out_d; long long* off_out_q;
   w_assign(sense, off_d, off_q, scaled, has_scaler, self, tsense, tscaled, rt, ct, out, off_out_d, off_out_q);
   CANARY();
}
#endif

/* ============================================================================================================ */
#define PARAMS_S int which, int time, int have_rat, int loaded, int hasBasis, int sense, double off_d, long long off_q, int scaled, int has_scaler, \
   int tsense, int tscaled, long long rt, long long ct, long long urt, long long uct, long long* out, double* off_out_d, long long* off_out_q
#define REQ_SYNC __CPROVER_requires(B01(time) && B01(have_rat) && B01(loaded) && B01(hasBasis))
#define TIMED(first, last) ((time ? (g_tstart == 1 && g_tstop == 1 && g_tstart_seq < (first) && g_tstop_seq > (last)) : (g_tstart == 0 && g_tstop == 0)))

#ifdef INST_syncLPRational
/* SoPlexBase<R>::_syncLPRational(bool time): the rational LP (created if absent) is assigned exactly once - real operator= body - and afterwards
 * holds the USER's LP: the floating-point LP's storage if that LP is not scaled, its unscaled image (urt, uct) if it is stored in scaled form
 * (persistent scaling after a solve); it is never marked scaled.  Then _recomputeRangeTypesRational().  The floating-point LP itself is not
 * touched.  SOURCE_DOMAIN: instance syncLPRational: the real LP is not scaled and has no scaler; syncLPRational_anysource: any real LP that
 * satisfies the class invariant "a scaled LP knows its scaler" (SPxScaler::scale sets _isScaled and lp_scaler together). */
#define OFFSET_OK (*off_out_q == TORAT(off_d))
void w_sync(PARAMS_S)
REQ_ZERO
REQ_ARGS
REQ_SYNC
__CPROVER_requires(SOURCE_DOMAIN)
__CPROVER_assigns(ASSIGNS_GHOSTS)
__CPROVER_ensures(g_asg_calls == 1 && out[12] == 1 && g_row_asg == 1 && g_row_src == SRC_RT && g_col_asg == 1 && g_col_src == SRC_CT && g_ctor_calls == 0 && g_load_calls == 0)
TARGET_IS_SOURCE
__CPROVER_ensures(out[1] == 0)   /* the rational LP has no scaler: it must not be marked scaled - its stored numbers ARE the numbers that were entered */
__CPROVER_ensures(g_recomp_calls == 1 && g_recomp_seq > g_asg_seq && g_recomp_seq > g_row_seq && g_recomp_seq > g_col_seq)
__CPROVER_ensures(have_rat ? (out[8] == 1 && g_alloc_calls == 0 && g_pnew_calls == 0) : (out[9] == 1 && g_alloc_calls == 1 && g_pnew_calls == 1))
__CPROVER_ensures(TIMED(g_asg_seq, g_recomp_seq))
__CPROVER_ensures(out[7] == hasBasis)
/* how: directly from the real LP, or from ONE unscaled copy of it (never by unscaling the real LP in place) */
__CPROVER_ensures(scaled ? (out[11] == 0 && g_copy_calls == 1 && out[13] == 1 && g_unscale_calls == 1 && out[14] == 0 && g_unscale_seq < g_asg_seq) : (out[11] == 1 && g_unscale_calls == 0))
/* frame: the floating-point LP is untouched - storage, scaling flag, scaler, sense, offset, message handler, tolerances */
__CPROVER_ensures(out[16] == rt && out[17] == ct && out[18] == scaled && out[19] == 1 && out[20] == SENSE(sense) && *off_out_d == off_d && out[21] == 1)
;
#endif

#ifdef INST_syncLPReal
/* SoPlexBase<R>::_syncLPReal(bool time): loaded: the solver loads a converted COPY of the rational LP (real cross-type constructor);
 * not loaded: the real LP is assigned from the rational LP (real operator=).  Either way exactly once; afterwards no basis, and the
 * rational LU factorisation is cleared. */
#define OFFSET_OK (*off_out_d == TOREAL(off_q))
void w_sync(PARAMS_S)
REQ_ZERO
REQ_ARGS
REQ_SYNC
__CPROVER_requires(have_rat == 1)
__CPROVER_assigns(ASSIGNS_GHOSTS)
__CPROVER_ensures(loaded ==> (g_load_calls == 1 && g_ctor_calls == 1 && out[12] == 1 && g_asg_calls == 0 && g_row_asg == 0 && g_col_asg == 0))
__CPROVER_ensures(loaded ==> (g_row_ctor == 1 && g_rowctor_src == rt && g_col_ctor == 1 && g_colctor_src == ct))
__CPROVER_ensures(loaded ==> (g_load_sense == SENSE(sense) && g_load_offset == TOREAL(off_q) && g_load_scaled == scaled && g_load_scaler_null == 1 && out[13] == 1 && out[14] == 1 && g_load_initslack == 1))
__CPROVER_ensures(!loaded ==> (g_asg_calls == 1 && out[11] == 1 && g_row_asg == 1 && g_row_src == rt && g_col_asg == 1 && g_col_src == ct && g_load_calls == 0 && g_ctor_calls == 0))
__CPROVER_ensures(!loaded ==> (out[5] == rt && out[6] == ct && out[0] == SENSE(sense) && OFFSET_OK && out[1] == scaled && out[2] == 1 && out[3] == 1 && out[4] == 1))
__CPROVER_ensures(MEMBER_LIST_COMPLETE)
__CPROVER_ensures(out[7] == 0)
__CPROVER_ensures(g_lu_clear == 1 && g_lu_seq > (loaded ? g_load_seq : g_asg_seq))
__CPROVER_ensures(TIMED(loaded ? g_load_seq : g_asg_seq, g_lu_seq))
__CPROVER_ensures(out[8] == 1 && g_alloc_calls == 0 && g_pnew_calls == 0 && g_recomp_calls == 0)
;
#endif

#ifdef INST_ensureRationalLP
/* SoPlexBase<R>::_ensureRationalLP(): "ensures that the rational LP is available; performs no sync" */
void w_sync(PARAMS_S)
REQ_ZERO
REQ_ARGS
REQ_SYNC
__CPROVER_assigns(ASSIGNS_GHOSTS)
__CPROVER_ensures(out[10] == 0 && g_asg_calls == 0 && g_ctor_calls == 0 && g_load_calls == 0 && g_recomp_calls == 0 && g_row_asg == 0 && g_col_asg == 0)
/* an existing rational LP is left alone */
__CPROVER_ensures(have_rat ==> (out[8] == 1 && g_alloc_calls == 0 && g_pnew_calls == 0 && out[5] == ~rt && out[6] == ~ct && out[0] == SENSE(tsense) && *off_out_q == off_q && out[1] == tscaled && out[2] == 0))
/* a new one is a default-constructed (empty) LP in fresh memory, wired to this object's message handler and tolerances */
__CPROVER_ensures(!have_rat ==> (out[9] == 1 && g_alloc_calls == 1 && g_pnew_calls == 1 && out[5] == 0 && out[6] == 0 && out[0] == 1 && *off_out_q == 0 && out[1] == 0 && out[2] == 1))
__CPROVER_ensures(out[3] == 1 && out[4] == 1)
__CPROVER_ensures(out[7] == hasBasis)
;
#endif

#if defined(INST_syncLPRational) || defined(INST_syncLPReal) || defined(INST_ensureRationalLP)
void h_sync(void)
{
   int which, time, have_rat, loaded, hasBasis, sense, scaled, has_scaler, tsense, tscaled; double off_d; long long off_q, rt, ct, urt, uct; long long* out; double* off_out_d; long long* off_out_q;
   w_sync(which, time, have_rat, loaded, hasBasis, sense, off_d, off_q, scaled, has_scaler, tsense, tscaled, rt, ct, urt, uct, out, off_out_d, off_out_q);
   CANARY();
}
#endif
