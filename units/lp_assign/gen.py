#!/usr/bin/env python3
"""Generates unit.json of unit lp_assign (run after editing; the runner reads unit.json only)."""
import json, os
HERE = os.path.dirname(os.path.abspath(__file__))
H = "src/soplex/spxlpbase.h"
KNOWN = ["thesense", "offset", "_isScaled", "lp_scaler", "spxout", "_tolerances"]
# a data-member declaration of class SPxLPBase: a line at class-scope indentation (exactly 3 blanks), no parentheses, `name;` or `name = init;`
UNKNOWN_MEMBER = (r"(?:\A.*?\n   (?![ \n])(?!friend\b|typedef\b|using\b|template\b|enum\b|class\b|struct\b|public:|private:|protected:|//|/\*|\*|#|\}|\{)"
                  r"[^\n()]*?\b(?!(?:%s)\s*[;=])(?=[A-Za-z_]\w*\s*(?:=[^;\n()]*)?;)|\A)(\w*)" % "|".join(KNOWN))
A_SIG = r"SPxLPBase<R>&\s*operator=\s*\(\s*const\s+SPxLPBase<S>&\s*old\s*\)"
C_SIG = r"template\s*<\s*class\s+S\s*>\s*SPxLPBase\s*\(\s*const\s+SPxLPBase<S>&\s*old\s*\)\s*:[^{}]*"
S_ASSIGN = {"as": "assign_cross.inc", "file": H, "sig": A_SIG, "must_contain": [r"offset = R\(old\.offset\);"]}
S_CTOR = {"as": "ctor_cross.inc", "file": H, "sig": C_SIG}
S_ENSURE = {"as": "_ensureRationalLP.inc", "file": "src/soplex.hpp", "sig": r"void\s+SoPlexBase<R>::_ensureRationalLP\s*\(\s*\)",
            "model_depends_on": [r"spx_alloc\(_rationalLP\);\s*_rationalLP = new\(_rationalLP\) SPxLPRational\(\);"]}
S_SYNCQ = {"as": "_syncLPRational.inc", "file": "src/soplex.hpp", "sig": r"void\s+SoPlexBase<R>::_syncLPRational\s*\(\s*bool\s+time\s*\)"}
S_SYNCR = {"as": "_syncLPReal.inc", "file": "src/soplex.hpp", "sig": r"void\s+SoPlexBase<R>::_syncLPReal\s*\(\s*bool\s+time\s*\)"}
S_COPY = {"as": "ctor_copy.inc", "file": H, "sig": r"\n   SPxLPBase\s*\(\s*const\s+SPxLPBase<R>&\s*old\s*\)\s*:[^{}]*"}
S_UNSCALE = {"as": "unscaleLP.inc", "file": "src/soplex/spxlpbase_real.hpp", "sig": r"void\s+SPxLPBase<R>::unscaleLP\s*\(\s*\)"}
BASE = [S_ASSIGN, S_ENSURE, S_COPY, S_UNSCALE]

def mut(name, sl, find, repl, regex=False):
    m = {"name": name, "slice": sl, "find": find, "replace": repl}
    if regex: m["regex"] = True
    return m
M_OFFSET = mut("R2c5_offset_not_copied", "assign_cross.inc", r"offset = R\(old\.offset\);", ";", True)
A_MUT = [M_OFFSET,
         mut("isScaled_not_copied", "assign_cross.inc", "_isScaled = old._isScaled;", ";"),
         mut("columns_not_copied", "assign_cross.inc", "LPColSetBase<R>::operator=(old);", "LPRowSetBase<R>::operator=(old);"),
         mut("sense_inverted", "assign_cross.inc", r"SPxLPBase<R>::MINIMIZE :\s*SPxLPBase<R>::MAXIMIZE", "SPxLPBase<R>::MAXIMIZE : SPxLPBase<R>::MINIMIZE", True),
         mut("tolerances_not_copied", "assign_cross.inc", "_tolerances = old._tolerances;", ";"),
         mut("spxout_not_copied", "assign_cross.inc", "spxout = old.spxout;", ";"),
         mut("scaler_kept", "assign_cross.inc", "lp_scaler = nullptr;", ";")]
insts = [
 {"name": "assign_q_from_d", "function": "template <class S> SPxLPBase<R>& SPxLPBase<R>::operator=(const SPxLPBase<S>& old)  [R = Rational, S = double: _syncLPRational]",
  "defines": {"INST_assign_q_from_d": ""}, "harness": "h_assign", "enforce": "w_assign", "slices": BASE, "min_obligations": 40, "tier": "quick", "mutants": A_MUT},
 {"name": "assign_d_from_q", "function": "template <class S> SPxLPBase<R>& SPxLPBase<R>::operator=(const SPxLPBase<S>& old)  [R = double, S = Rational: _syncLPReal, LP not loaded]",
  "defines": {"INST_assign_d_from_q": ""}, "harness": "h_assign", "enforce": "w_assign", "slices": BASE, "min_obligations": 40, "tier": "quick", "mutants": A_MUT},
 {"name": "ctor_d_from_q", "function": "template <class S> SPxLPBase<R>::SPxLPBase(const SPxLPBase<S>& old)  [R = double, S = Rational: _syncLPReal, LP loaded]",
  "defines": {"INST_ctor_d_from_q": "", "WITH_CTOR": ""}, "harness": "h_assign", "enforce": "w_assign", "slices": BASE + [S_CTOR], "min_obligations": 40, "tier": "quick",
  "mutants": [mut("tolerances_not_copied", "ctor_cross.inc", "_tolerances = old._tolerances;", ";"),
              mut("scaler_garbage", "ctor_cross.inc", "lp_scaler = nullptr;", ";")]},
 {"name": "ctor_q_from_d", "function": "template <class S> SPxLPBase<R>::SPxLPBase(const SPxLPBase<S>& old)  [R = Rational, S = double]",
  "defines": {"INST_ctor_q_from_d": "", "WITH_CTOR": ""}, "harness": "h_assign", "enforce": "w_assign", "slices": BASE + [S_CTOR], "min_obligations": 40, "tier": "quick",
  "mutants": [mut("tolerances_not_copied", "ctor_cross.inc", "_tolerances = old._tolerances;", ";")]},
 {"name": "syncLPRational", "function": "SoPlexBase<R>::_syncLPRational(bool time)  (+ real _ensureRationalLP, real cross-type operator=)",
  "defines": {"INST_syncLPRational": "", "WITH_HOST": "", "WITH_SYNC": "", "WITH_CTOR": "", "SOURCE_DOMAIN": "(scaled == 0 && has_scaler == 0)"},
  "harness": "h_sync", "enforce": "w_sync", "slices": BASE + [S_CTOR, S_SYNCQ, S_SYNCR], "min_obligations": 60, "tier": "quick",
  "mutants": [M_OFFSET,
              mut("no_recompute", "_syncLPRational.inc", "_recomputeRangeTypesRational();", ";"),
              mut("no_copy", "_syncLPRational.inc", "*_rationalLP = *_realLP;", ";"),
              mut("recompute_before_copy", "_syncLPRational.inc", r"\*_rationalLP = \*_realLP;\s*_recomputeRangeTypesRational\(\);", "_recomputeRangeTypesRational(); *_rationalLP = *_realLP;", True)]},
 {"name": "syncLPRational_anysource", "function": "SoPlexBase<R>::_syncLPRational(bool time)  [real LP possibly stored in scaled form: persistent scaling after a solve; + real same-type copy constructor, real unscaleLP]",
  "defines": {"INST_syncLPRational": "", "WITH_HOST": "", "WITH_SYNC": "", "WITH_CTOR": "", "SOURCE_DOMAIN": "(scaled == 0 || has_scaler == 1)"},
  "harness": "h_sync", "enforce": "w_sync", "slices": BASE + [S_CTOR, S_SYNCQ, S_SYNCR], "min_obligations": 60, "tier": "quick",
  "mutants": [mut("copy_scaled_storage", "_syncLPRational.inc", r"if\(_realLP->isScaled\(\)\)\s*\{.*?\}\s*else\s*\*_rationalLP = \*_realLP;", "*_rationalLP = *_realLP;", True),
              mut("unscales_real_lp_in_place", "_syncLPRational.inc", r"if\(_realLP->isScaled\(\)\)\s*\{.*?\}\s*else\s*\*_rationalLP = \*_realLP;", "if(_realLP->isScaled()) _realLP->unscaleLP(); *_rationalLP = *_realLP;", True),
              mut("copy_not_unscaled", "_syncLPRational.inc", "unscaledLP.unscaleLP();", ";"),
              mut("copy_ctor_drops_columns", "ctor_copy.inc", "_tolerances = old._tolerances;", "_tolerances = old._tolerances; LPColSetBase<R>::d->ctag = 0;"),
              mut("unscaleLP_without_scaler_call", "unscaleLP.inc", "lp_scaler->unscale(*this);", ";"),
              M_OFFSET]},
 {"name": "syncLPReal", "function": "SoPlexBase<R>::_syncLPReal(bool time)  (+ real cross-type constructor / operator=)",
  "defines": {"INST_syncLPReal": "", "WITH_HOST": "", "WITH_SYNC": "", "WITH_CTOR": ""},
  "harness": "h_sync", "enforce": "w_sync", "slices": BASE + [S_CTOR, S_SYNCQ, S_SYNCR], "min_obligations": 60, "tier": "quick",
  "mutants": [M_OFFSET,
              mut("basis_kept", "_syncLPReal.inc", "_hasBasis = false;", "_hasBasis = true;"),
              mut("lu_not_cleared", "_syncLPReal.inc", "_rationalLUSolver.clear();", ";"),
              mut("paths_swapped", "_syncLPReal.inc", "if(_isRealLPLoaded)", "if(!_isRealLPLoaded)"),
              mut("ctor_tolerances_not_copied", "ctor_cross.inc", "_tolerances = old._tolerances;", ";")]},
 {"name": "ensureRationalLP", "function": "SoPlexBase<R>::_ensureRationalLP()",
  "defines": {"INST_ensureRationalLP": "", "WITH_HOST": ""},
  "harness": "h_sync", "enforce": "w_sync", "slices": BASE, "min_obligations": 40, "tier": "quick",
  "mutants": [mut("no_tolerances", "_ensureRationalLP.inc", "_rationalLP->setTolerances(this->tolerances());", ";"),
              mut("no_outstream", "_ensureRationalLP.inc", "_rationalLP->setOutstream(spxout);", ";"),
              mut("test_inverted", "_ensureRationalLP.inc", "if(_rationalLP == nullptr)", "if(_rationalLP != nullptr)")]},
]
unit = {
 "property": ["C07"],
 "desc": "bulk synchronisation: cross-type SPxLPBase assignment / copy construction copy EVERY data member (member list taken from the class declaration); _syncLPRational/_syncLPReal/_ensureRationalLP",
 "rmode": "double (IEEE, bit-precise) + Rational = ordered-group long long (exact embedding; rounding uninterpreted)",
 "flags": ["--bounds-check", "--pointer-check"], "timeout_s": 300, "mem_gb": 8,
 "extracts": [
  {"as": "SPxSense.inc", "file": H, "regex": r"enum SPxSense\s*\{[^{}]*\};"},
  {"as": "SPxLPBase_data.inc", "file": H, "regex": r"/\*\*@name Data \*/\s*///@\{(.*?)///@\}", "group": 1},
  {"as": "SPxLPBase_spxout.inc", "file": H, "regex": r"\n   (SPxOut\*\s*spxout;)", "group": 1},
  {"as": "SPxLPBase_tolerances.inc", "file": H, "regex": r"\n   (std::shared_ptr<Tolerances>\s+_tolerances;)", "group": 1},
  {"as": "ctor_copy_init.inc", "file": H, "regex": r"\n   SPxLPBase\s*\(\s*const\s+SPxLPBase<R>&\s*old\s*\)\s*(:[^{}]*)\{", "group": 1},
  {"as": "ctor_cross_init.inc", "file": H, "regex": r"template\s*<\s*class\s+S\s*>\s*SPxLPBase\s*\(\s*const\s+SPxLPBase<S>&\s*old\s*\)\s*(:[^{}]*)\{", "group": 1},
 ],
 "constants": [{"name": "K_UNKNOWN_DATA_MEMBER", "file": H, "regex": UNKNOWN_MEMBER}],
 "conformance": [
  {"file": H, "regex": r"class SPxLPBase : protected LPRowSetBase<R>, protected LPColSetBase<R>", "why": "the two bases whose cross-type assignment is recorded"},
  {"file": H, "regex": r"virtual void clear\(\)\s*\{\s*LPRowSetBase<R>::clear\(\);\s*LPColSetBase<R>::clear\(\);\s*thesense = MAXIMIZE;\s*offset = 0;\s*_isScaled = false;\s*lp_scaler = nullptr;",
   "why": "stub default constructor = clear(): empty, MAXIMIZE, offset 0, unscaled, no scaler"},
  {"file": H, "regex": r"SPxLPBase\(\)\s*\{\s*SPxLPBase<R>::clear\(\);", "why": "default constructor calls clear()"},
  {"file": H, "regex": r"void setOutstream\(SPxOut& newOutstream\)\s*\{\s*spxout = &newOutstream;\s*\}", "why": "stub setOutstream"},
  {"file": H, "regex": r"virtual void setTolerances\(std::shared_ptr<Tolerances> tolerances\)\s*\{\s*this->_tolerances = tolerances;\s*\}", "why": "stub setTolerances"},
  {"file": "src/soplex/lprowsetbase.h", "regex": r"template\s*<\s*class S\s*>\s*LPRowSetBase<R>& operator=\(const LPRowSetBase<S>& rs\)", "why": "row set has its own cross-type assignment (recorded)"},
  {"file": "src/soplex/lpcolsetbase.h", "regex": r"template\s*<\s*class S\s*>\s*LPColSetBase<R>& operator=\(const LPColSetBase<S>& rs\)", "why": "column set has its own cross-type assignment (recorded)"},
  {"file": "src/soplex/spxsolver.h", "regex": r"virtual void loadLP\(const SPxLPBase<R>& LP, bool initSlackBasis = true\);", "why": "solver stub loadLP"},
  {"file": "src/soplex/spxscaler.hpp", "regex": r"void SPxScaler<R>::unscale\(SPxLPBase<R>& lp\)\s*\{(?:(?!\n\}).)*?lp\._isScaled = false;\s*assert\(lp\.isConsistent\(\)\);\s*\}", "why": "scaler model: unscale(lp) ends by clearing lp._isScaled"},
  {"file": "src/soplex/spxscaler.hpp", "regex": r"void SPxScaler<R>::unscale\(SPxLPBase<R>& lp\)\s*\{(?:(?!\n\}).)*?lp_scaler\s*=", "absent": True, "why": "scaler model: unscale(lp) does not touch lp.lp_scaler"},
  {"file": "src/soplex.h", "regex": r"mutable SPxOut spxout;", "why": "SoPlexBase::spxout is an object (setOutstream(spxout) takes its address)"},
 ],
 "trusted": [
  "LPRowSetBase<R>/LPColSetBase<R> cross-type assignment and construction are ghost recorders that copy an identity tag (their element-wise conversion loops are not part of this unit)",
  "the member template <class S> is hosted as the non-template overload with S = the other number type (goto-cc cannot compile member templates of class templates); R/S in {double, Rational}",
  "Rational = long long: Rational(double) is an exact order embedding (exactness of boost's conversion trusted), double(Rational) is an uninterpreted rounding function",
  "std::shared_ptr<Tolerances> is a plain pointer holder (sharing semantics only); SPxScaler, SPxOut, Tolerances are opaque",
  "SPxScaler<R>::unscale(lp) is a model on identity tags: the storage the scaler scaled (rt, ct) becomes the user's LP (urt, uct), anything else garbage; it clears _isScaled and leaves lp_scaler alone (conformance-checked); class invariant assumed for the real LP: scaled ==> it has its scaler",
  "assert(old.lp_scaler == nullptr) in the cross-type operator= is compiled out (NDEBUG semantics, DESIGN.md section 3); with asserts enabled the sync of an LP that was ever scaled aborts there, before and after the repair of _syncLPRational (unscale does not reset lp_scaler)",
  "spx_alloc hands out memory provided by the wrapper (pre-filled with garbage); `new(p) SPxLPRational()` is rewritten by a macro into a call that default-initialises *p like SPxLPBase::clear() (conformance-checked); Timer, SLUFactorRational::clear, SPxSolverBase::loadLP, _recomputeRangeTypesRational are ghost recorders",
  "data-member scan: a declaration of class SPxLPBase is recognised as a line indented by exactly three blanks without parentheses that ends in `name;` or `name = init;` (the code base's astyle layout)",
 ],
 "instances": insts,
}
json.dump(unit, open(os.path.join(HERE, "unit.json"), "w"), indent=1)
print("instances:", len(insts))
import re
txt = open("/repo/" + H).read()
m = re.search(UNKNOWN_MEMBER, txt, re.S); print("unknown member on current tree: %r" % m.group(1))
m = re.search(UNKNOWN_MEMBER, txt.replace("   SPxOut* spxout;", "   SPxOut* spxout;\n   int cachedNnz;"), re.S); print("with an extra member: %r" % m.group(1))
m = re.search(UNKNOWN_MEMBER, txt.replace("   bool _isScaled; ", "   bool _isScaled;\n   R offset2 = 0; "), re.S); print("with an initialised extra member: %r" % m.group(1))
