/* Contracts for DataHashTable<int,int> (C19: "name lookup returns the index the name was registered under and fails for
 * removed names" rests on this table).
 *
 * C view: slot s of the element array is (item[s], info[s], stat[s]); n = m_elem.size() (1 <= n <= CAP, the three arrays
 * have CAP cells, the C++ side works on a block of exactly n elements with a bounds obligation on every access);
 * hs = m_hashsize; *used = m_used; hash(k) = uninterpreted function of the key (the table's hash function).
 *
 * REPRESENTATION INVARIANT  INV = C & N & P:
 *   C      m_used == number of USED slots       (ghost prefix counts: cnt[0] = 0, cnt[s+1] = cnt[s] + (stat[s] == USED), m_used == cnt[n])
 *   N(a,b) two different USED slots hold different keys
 *   P(s)   a USED slot s is FOUND BY A PROBE for its key k: hash(k) >= 0, and walking p = hash(k) % n, p = (p + hs) % n, ...
 *          reaches s before it meets a FREE slot and before it comes back to its start          [reach()]
 *          (% is the uninterpreted function mod, see unit.cpp: the proofs hold for every probe successor function)
 * P is the clause that makes lookups correct in the presence of RELEASED slots (a probe must walk past them).
 * The probe loops visit data-dependent slots, so INV is supplied at EVERY slot below CAP by explicit conjunction (rep.h)
 * and all loops are unwound completely (a probe makes at most n <= CAP steps): exhaustive proofs for every table of at
 * most CAP slots, every step width hs in [1, HSMAX] and every hash function with values in [0, HASHMAX] (the magnitudes
 * are capped because SAT has to match 32-bit remainder circuits; see unit.json).  Postconditions are stated at havoc'd ghost
 * slots g_g, g_h (= for all slots). */
#include "verif_c.h"
#include "constants.h"
#ifndef CAP
#define CAP 4
#endif
#include "rep.h"
#ifndef HSMAX
#define HSMAX (1 << 30)
#endif
#ifndef HASHMAX
#define HASHMAX 0x7fffffff
#endif
#define HASH_OK(k) (0 <= HASH(k) && HASH(k) <= HASHMAX)
#include "Element_states.inc"
;
int __CPROVER_uninterpreted_hash(int);
#define HASH(k) __CPROVER_uninterpreted_hash(k)
/* a % size() is the uninterpreted function mod(a, n) (see unit.cpp); MODOK: the facts about % the proofs use */
#define MOD(a, n) ((a) % (n))

int g_g, g_h, g_x, g_u0, v_item, v_info, v_stat;
static void havoc_ghosts(void)
{
   g_g = nondet_int(); g_h = nondet_int(); g_x = nondet_int(); g_u0 = nondet_int(); v_item = nondet_int(); v_info = nondet_int(); v_stat = nondet_int();
}

typedef const int* cip;
static int in(int n, int s) { return 0 <= s && s < n; }
static int is_used(cip stat, int n, int s) { return 0 <= s && s < n && stat[s] == USED; }
/* P(s) */
#define STEP(t) if(p == s) return 1; if(stat[p] == FREE) return 0; p = MOD(p + hs, n); if(!(0 <= p && p < n)) return 0; if(p == home) return 0;
static int reach(cip item, cip stat, int n, int hs, int s)
{
   if(!is_used(stat, n, s)) return 1;
   int hv = HASH(item[s]);
   if(hv < 0 || hv > HASHMAX) return 0;
   int home = MOD(hv, n);
   if(!(0 <= home && home < n)) return 0;
   int p = home;
   REP_DO(STEP)
   return 0;
}
static int nodup(cip item, cip stat, int n, int a, int b)
{
   if(a == b || !is_used(stat, n, a) || !is_used(stat, n, b)) return 1;
   return item[a] != item[b];
}
/* C at slot s, for the count function cnt[s] + (s > x ? dx : 0)   (x = -1, dx = 0: cnt itself) */
static int cf(cip cnt, int s, int x, int dx) { return cnt[s] + ((x >= 0 && s > x) ? dx : 0); }
static int cntdef(cip stat, cip cnt, int n, int s, int x, int dx)
{
   if(!(0 <= s && s < n)) return 1;
   return cf(cnt, s + 1, x, dx) == cf(cnt, s, x, dx) + (stat[s] == USED ? 1 : 0);
}
static int statok(cip stat, int n, int s) { return !(0 <= s && s < n) || stat[s] == FREE || stat[s] == RELEASED || stat[s] == USED; }
/* facts about % (true for every a >= 0, n > 0): the remainder is in [0, n) - for the successor of every slot and for the home
 * slot of a key */
static int modok_slot(int n, int hs, int p) { return !(0 <= p && p < n) || (0 <= MOD(p + hs, n) && MOD(p + hs, n) < n); }
static int modok_key(int n, int k) { return HASH(k) < 0 || (0 <= MOD(HASH(k), n) && MOD(HASH(k), n) < n); }
static int modok_stored(cip item, cip stat, int n, int s) { return !is_used(stat, n, s) || modok_key(n, item[s]); }
/* the probe sequence p -> (p + hs) % n visits every slot: starting from slot 0 it comes back to 0 after exactly n steps
 * (for % this is gcd(hs, n) == 1, the documented precondition "must not have a common dominator") */
#define CSTEP(t) if((t) < n) { p = MOD(p + hs, n); if(!(0 <= p && p < n)) return 0; if(((t) + 1 < n) == (p == 0)) return 0; }
static int cyclic(int n, int hs)
{
   int p = 0;
   REP_DO(CSTEP)
   return 1;
}

#define P_AT(s)     reach(item, stat, n, hs, s)
#define N_AT(a, b)  nodup(item, stat, n, a, b)
#define N_ROW(a)    REP_ALLB(N_AT, a)
#define N_G(a)      nodup(item, stat, n, a, g_g)
#define C_AT(s)     cntdef(stat, cnt, n, s, -1, 0)
#define S_AT(s)     statok(stat, n, s)
#define M_SLOT(p)   modok_slot(n, hs, p)
#define M_STORED(s) modok_stored(item, stat, n, s)
#define MODOK(h)    (REP_ALL(M_SLOT) && modok_key(n, h))
#ifdef NFIX
#define N_OK (n == NFIX)
#else
#define N_OK (1 <= n && n <= CAP)
#endif
#define SHAPE (N_OK && 1 <= hs && hs <= HSMAX && __CPROVER_is_fresh(item, CAP * sizeof(int)) \
   && __CPROVER_is_fresh(info, CAP * sizeof(int)) && __CPROVER_is_fresh(stat, CAP * sizeof(int)) && __CPROVER_is_fresh(used, sizeof(int)) \
   && __CPROVER_is_fresh(cnt, (CAP + 1) * sizeof(int)))
#define COUNT_OK (cnt[0] == 0 && REP_ALL(C_AT) && *used == cnt[n])
#define INV_ALL (REP_ALL(S_AT) && COUNT_OK && REP_ALL(P_AT) && REP_ALL(N_ROW))
#define OUT(p) __CPROVER_is_fresh(p, sizeof(int))
#define NOT_H(s) (!(is_used(stat, n, s) && item[s] == h))

/* ---------------------------------------------------------------------------------------------------------------- */
#ifdef INST_lookup
/* index(h) / has(h) / get(h) on a table with C, P(g) and N(g, .) for a ghost slot g:
 *   a non-negative result is a USED slot holding h;  if ANY used slot g holds h then index(h) == g (so -1 means: h is
 *   not in the table);  has(h) <=> index(h) >= 0;  get(h) is null <=> !has(h), else points to the info stored with h;
 *   nothing is modified. */
void w_lookup(int* item, int* info, int* stat, int n, int hs, int* used, int h,
              int* out_idx, int* out_has, int* out_null, int* out_val, const int* cnt)
__CPROVER_requires(SHAPE && OUT(out_idx) && OUT(out_has) && OUT(out_null) && OUT(out_val) && HASH_OK(h))
__CPROVER_requires(MODOK(h) && COUNT_OK && P_AT(g_g) && REP_ALL(N_G))
__CPROVER_requires(g_u0 == *used && (!in(n, g_h) || (v_item == item[g_h] && v_info == info[g_h] && v_stat == stat[g_h])))
__CPROVER_assigns(*out_idx, *out_has, *out_null, *out_val, __CPROVER_object_whole(item), __CPROVER_object_whole(info), __CPROVER_object_whole(stat), *used)
__CPROVER_ensures(*out_idx == -1 || (in(n, *out_idx) && stat[*out_idx] == USED && item[*out_idx] == h))
__CPROVER_ensures(!(is_used(stat, n, g_g) && item[g_g] == h) || *out_idx == g_g)
__CPROVER_ensures(*out_has == (*out_idx >= 0) && *out_null == (*out_idx < 0) && (*out_idx < 0 || *out_val == info[*out_idx]))
__CPROVER_ensures(*used == g_u0 && (!in(n, g_h) || (v_item == item[g_h] && v_info == info[g_h] && v_stat == stat[g_h])))
;
void h_lookup(void)
{
   int* item; int* info; int* stat; int n, hs; int* used; int h; int* o1; int* o2; int* o3; int* o4; const int* cnt;
   havoc_ghosts();
   w_lookup(item, info, stat, n, hs, used, h, o1, o2, o3, o4, cnt);
   CANARY();
}
#endif

/* ---------------------------------------------------------------------------------------------------------------- */
#ifdef INST_add
/* add(h, info) on a table satisfying INV that does not contain h (documented precondition, assert(!has(h))), whose step
 * width has no common divisor with size() (documented) and that need not grow (m_used < size() * FILLFACTOR; growth is
 * instance reMax):  afterwards get(h) returns info [index(h) = *out_idx is a slot that was not USED]; m_used is one larger;
 * every other slot is unchanged (so every key that was present keeps its info); INV holds again. */
void w_add(int* item, int* info, int* stat, int n, int hs, int* used, int h, int inf, int* out_idx, int* out_val, const int* cnt)
__CPROVER_requires(SHAPE && OUT(out_idx) && OUT(out_val) && HASH_OK(h))
__CPROVER_requires(MODOK(h) && INV_ALL && cyclic(n, hs) && !(*used >= n * SOPLEX_HASHTABLE_FILLFACTOR))
__CPROVER_requires(REP_ALL(NOT_H))
__CPROVER_requires(g_u0 == *used && (!in(n, g_h) || (v_item == item[g_h] && v_info == info[g_h] && v_stat == stat[g_h])))
__CPROVER_assigns(*out_idx, *out_val, __CPROVER_object_whole(item), __CPROVER_object_whole(info), __CPROVER_object_whole(stat), *used)
__CPROVER_ensures(in(n, *out_idx) && stat[*out_idx] == USED && item[*out_idx] == h && info[*out_idx] == inf && *out_val == inf)
__CPROVER_ensures(*used == g_u0 + 1)
__CPROVER_ensures(!in(n, g_h) || (g_h == *out_idx ? v_stat != USED : (v_item == item[g_h] && v_info == info[g_h] && v_stat == stat[g_h])))
__CPROVER_ensures(S_AT(g_g) && P_AT(g_g) && N_AT(g_g, g_h))
__CPROVER_ensures(cntdef(stat, cnt, n, g_g, *out_idx, 1) && *used == cf(cnt, n, *out_idx, 1))
;
void h_add(void)
{
   int* item; int* info; int* stat; int n, hs; int* used; int h, inf; int* o1; int* o2; const int* cnt;
   havoc_ghosts();
   w_add(item, info, stat, n, hs, used, h, inf, o1, o2, cnt);
   CANARY();
}
#endif

/* ---------------------------------------------------------------------------------------------------------------- */
#ifdef INST_remove
/* remove(h) on a table satisfying INV; ghost g_x = the slot that holds h, or -1 if no slot does (specification-only).
 *   has(h) is false afterwards (WHICH == 0);  if h was present slot g_x becomes RELEASED and m_used drops by one, otherwise
 *   nothing changes;  every other slot is unchanged;  INV holds again - in particular P at every slot: the probes for the
 *   other keys walk past the RELEASED slot.  WHICH == 1 states the consequence directly: EVERY OTHER KEY h2 THAT WAS
 *   PRESENT IS STILL FOUND after remove(h), in its slot, with its info; a key that was absent is still absent. */
void w_remove(int* item, int* info, int* stat, int n, int hs, int* used, int h, int h2, int which,
              int* out_has, int* out2_idx, int* out2_val, const int* cnt)
__CPROVER_requires(SHAPE && OUT(out_has) && OUT(out2_idx) && OUT(out2_val) && which == WHICH)
__CPROVER_requires(HASH_OK(h) && HASH_OK(h2) && h2 != h)
__CPROVER_requires(INV_ALL)
__CPROVER_requires(g_x == -1 ? REP_ALL(NOT_H) : (is_used(stat, n, g_x) && item[g_x] == h))
__CPROVER_requires(g_u0 == *used && (!in(n, g_h) || (v_item == item[g_h] && v_info == info[g_h] && v_stat == stat[g_h])))
__CPROVER_assigns(*out_has, *out2_idx, *out2_val, __CPROVER_object_whole(item), __CPROVER_object_whole(info), __CPROVER_object_whole(stat), *used)
__CPROVER_ensures(which != 0 || *out_has == 0)
__CPROVER_ensures(g_x < 0 ? *used == g_u0 : (stat[g_x] == RELEASED && *used == g_u0 - 1))
__CPROVER_ensures(!in(n, g_h) || (v_item == item[g_h] && v_info == info[g_h] && (g_h == g_x || v_stat == stat[g_h])))
__CPROVER_ensures(which != 1 || !(in(n, g_h) && v_stat == USED && v_item == h2) || (*out2_idx == g_h && *out2_val == v_info))
__CPROVER_ensures(which != 1 || *out2_idx == -1 || (in(n, *out2_idx) && stat[*out2_idx] == USED && item[*out2_idx] == h2 && *out2_val == info[*out2_idx]))
__CPROVER_ensures(S_AT(g_g) && P_AT(g_g) && N_AT(g_g, g_h))
__CPROVER_ensures(cntdef(stat, cnt, n, g_g, g_x, -1) && *used == cf(cnt, n, g_x, -1))
;
void h_remove(void)
{
   int* item; int* info; int* stat; int n, hs; int* used; int h, h2, which; int* o1; int* o2; int* o3; const int* cnt;
   havoc_ghosts();
   w_remove(item, info, stat, n, hs, used, h, h2, which, o1, o2, o3, cnt);
   CANARY();
}
#endif

/* ---------------------------------------------------------------------------------------------------------------- */
#ifdef INST_clear
/* clear(): every slot FREE, m_used == 0, no key is found; INV holds trivially (no slot is USED) */
void w_clear(int* item, int* info, int* stat, int n, int hs, int* used, int h, int* out_has)
__CPROVER_requires(1 <= n && n <= CAP && 1 <= hs && hs <= (1 << 30) && __CPROVER_is_fresh(item, CAP * sizeof(int))
   && __CPROVER_is_fresh(info, CAP * sizeof(int)) && __CPROVER_is_fresh(stat, CAP * sizeof(int)) && __CPROVER_is_fresh(used, sizeof(int)) && OUT(out_has) && HASH_OK(h) && MODOK(h))
__CPROVER_assigns(*out_has, __CPROVER_object_whole(item), __CPROVER_object_whole(info), __CPROVER_object_whole(stat), *used)
__CPROVER_ensures(*used == 0 && *out_has == 0 && (!in(n, g_g) || stat[g_g] == FREE))
;
void h_clear(void)
{
   int* item; int* info; int* stat; int n, hs; int* used; int h; int* o1;
   havoc_ghosts();
   w_clear(item, info, stat, n, hs, used, h, o1);
   CANARY();
}
#endif
