# Generator of units/datahashtable/unit.json.  Run: python3 gen_unit.py
import json, os
F="src/soplex/datahashtable.h"
def sl(as_, sig, **kw):
    d={"as":as_,"file":F,"sig":sig}; d.update(kw); return d
slices=[
 sl("DHT_index.inc", r"int\s+index\s*\(\s*const\s+HashItem&\s*h\s*\)\s*const"),
 sl("DHT_has.inc", r"bool\s+has\s*\(\s*const\s+HashItem&\s*h\s*\)\s*const"),
 sl("DHT_get.inc", r"const\s+Info\*\s+get\s*\(\s*const\s+HashItem&\s*h\s*\)\s*const"),
 sl("DHT_add.inc", r"void\s+add\s*\(\s*const\s+HashItem&\s*h\s*,\s*const\s+Info&\s*info\s*\)"),
 sl("DHT_remove.inc", r"void\s+remove\s*\(\s*const\s+HashItem&\s*h\s*\)"),
 sl("DHT_clear.inc", r"void\s+clear\s*\(\s*\)"),
]
H=r"DataHashTableHost::"
IDX={"function":H+r"index\(.*\)","loop":0}
u={
 "property":["C19"],
 "desc":"DataHashTable<int,int>: index/has/get, add, remove, clear - real bodies from datahashtable.h, real member list of class Element; probing with FREE / RELEASED / USED slots",
 "rmode":"int (HashItem = Info = int; the hash function is an uninterpreted function of the key)",
 "defines":{"CAP":"4","HSMAX":"64","HASHMAX":"255"}, "defines_thorough":{"CAP":"4","HSMAX":"2048","HASHMAX":"0x0fffffff"}, "defines_small":{"CAP":"2"},
 "flags":["--bounds-check","--pointer-check","--signed-overflow-check","--div-by-zero-check"],
 "timeout_s":300,
 "slices":slices,
 "extracts":[{"as":"Element_members.inc","file":F,"regex":r"class Element\s*\{\s*public:(.*?)\n\s*\};","group":1},
             {"as":"Element_states.inc","file":F,"regex":r"enum states\s*\{.*?\}"}],
 "constants":[{"name":"SOPLEX_HASHTABLE_FILLFACTOR","file":F,"regex":r"#define\s+SOPLEX_HASHTABLE_FILLFACTOR\s+([0-9.]+)"}],
 "conformance":[
  {"file":F,"regex":r"Array\s*<\s*Elem\s*>\s*m_elem;[^;]*?\n\s*int\s+m_hashsize;[^;]*?\n\s*int\s+m_used;[^;]*?\n\s*int\s*\(\*m_hashfun\)\s*\(const HashItem\*\);[^;]*?\n\s*Real\s+m_memfactor;",
   "why":"DataHashTableHost replicates m_elem, m_hashsize, m_used, m_hashfun, m_memfactor"},
  {"file":F,"regex":r"typedef\s+Element\s*<\s*HashItem\s*,\s*Info\s*>\s*Elem;","why":"Elem is Element<HashItem, Info>"},
  {"file":"src/soplex/array.h","regex":r"int\s+size\(\)\s*const\s*\{\s*return int\(data\.size\(\)\);","why":"Array::size() returns int (auto / decltype in index() and add() are compiled as int)"},
  {"file":"src/soplex/array.h","regex":r"T&\s+operator\[\]\(int n\)\s*\{\s*assert\(n >= 0 && n < int\(data\.capacity\(\)\)\);\s*return data\[n\];","why":"Array::operator[] is plain indexing"},
 ],
 "trusted":[
  "DataHashTableHost replicates the data members the bodies use (conformance-checked); every member-function body is the real one; the member list of class Element is extracted verbatim",
  "Array<Elem> (std::vector wrapper) is the stub ElemArray: a block of exactly size() elements; operator[] carries the obligation 0 <= n < size()",
  "HashItem = Info = int; the hash function is an uninterpreted function of the key, called through the real function pointer m_hashfun; it is REQUIRED to be non-negative on the keys involved (the only hash function in the tree, NameSetNameHashFunction, is: res %= 0x0fffffff) - a negative value would index m_elem out of range",
  "table size capped: 1 <= size() <= CAP = 4; magnitudes capped so that SAT can handle the 32-bit remainders: quick tier 1 <= m_hashsize <= 64, 0 <= hash <= 255 (every residue modulo every size() <= CAP occurs; the bodies use the two values only as (i + m_hashsize) % size() and hash % size()); thorough tier 1 <= m_hashsize <= 2048 (the automatic value for tables below 1523 elements is 1523), 0 <= hash <= 0x0fffffff (the range of NameSetNameHashFunction); INV is supplied at every slot below CAP by explicit conjunction (stubs/rep.h) and the probe loops are unwound completely with --unwinding-assertions (a probe makes at most size() steps): exhaustive for every table of at most CAP slots, every step width and hash function in these ranges, not inductive",
  "add(): proved for the documented preconditions !has(h) and `m_hashsize has no common divisor with size()` (stated as: the probe sequence started at slot 0 returns to 0 after exactly size() steps) and for the case that the table need not grow (m_used < size() * SOPLEX_HASHTABLE_FILLFACTOR; the growth path calls reMax, which re-inserts through add recursively)",
  "ghost prefix counts cnt[] are specification-only; they restrict no real input; assert() compiled out (NDEBUG semantics)",
 ],
 "instances":[]
}
MUT_IDX=[{"name":"stop_at_released","slice":"DHT_index.inc","regex":True,
          "find":r"while\(m_elem\[i\]\.stat != Elem::FREE\)\s*\{\s*if\(\(m_elem\[i\]\.stat == Elem::USED\)\s*&& \(m_elem\[i\]\.item == h\)\)",
          "replace":"while(m_elem[i].stat == Elem::USED)\n {\n if((m_elem[i].item == h))"}]
def inst(name, fn, unwind_loops, mutants, **kw):
    d={"name":name,"function":fn,"defines":{"INST_"+name:""},"harness":"h_"+name,"enforce":"w_"+name,
       "unwind":5,"unwind_loops":unwind_loops,"mutants":mutants,"min_obligations":30}
    d.update(kw); u["instances"].append(d)
inst("lookup","DataHashTable::index(const HashItem& h) / has(h) / get(h)",[IDX],
  MUT_IDX+[{"name":"ignore_stat","slice":"DHT_index.inc","find":"if((m_elem[i].stat == Elem::USED)\n","replace":"if((m_elem[i].stat != Elem::FREE)\n"},
           {"name":"step_one","slice":"DHT_index.inc","find":"i = (i + m_hashsize) % m_elem.size();","replace":"i = (i + 1) % m_elem.size();"},
           {"name":"has_strict","slice":"DHT_has.inc","find":"index(h) >= 0","replace":"index(h) > 0"},
           {"name":"empty_shortcut","slice":"DHT_index.inc","find":"if(m_used == 0)","replace":"if(m_used <= 1)"}])
inst("add","DataHashTable::add(const HashItem& h, const Info& info) [no growth] then index(h) / get(h)",[IDX,{"function":H+r"add\(.*\)","loop":0}],
  MUT_IDX[:0]+[{"name":"no_count","slice":"DHT_add.inc","find":"m_used++;","replace":";"},
   {"name":"wrong_info","slice":"DHT_add.inc","find":"m_elem[i].info = info;","replace":"m_elem[i].info = info + 1;"},
   {"name":"step_differs","slice":"DHT_add.inc","find":"i = (i + m_hashsize) % m_elem.size())","replace":"i = (i + 1) % m_elem.size())"},
   {"name":"reuse_only_free","slice":"DHT_add.inc","find":"m_elem[i].stat == Elem::USED;","replace":"m_elem[i].stat != Elem::FREE;"}])
inst("remove","DataHashTable::remove(const HashItem& h) then has(h)",[IDX],
  [{"name":"no_count","slice":"DHT_remove.inc","find":"m_used--;","replace":";"},
   {"name":"no_release","slice":"DHT_remove.inc","find":"m_elem[i].stat = Elem::RELEASED;","replace":"m_elem[i].stat = Elem::USED;"},
   {"name":"absent","slice":"DHT_remove.inc","find":"if(i < 0)","replace":"if(i <= 0)"}], defines={"INST_remove":"","WHICH":"0"})
inst("remove_other","DataHashTable::remove(const HashItem& h) then get(h2) for every other key h2",[IDX],
  MUT_IDX+[{"name":"mark_free","slice":"DHT_remove.inc","find":"m_elem[i].stat = Elem::RELEASED;","replace":"m_elem[i].stat = Elem::FREE;"}],
  defines={"INST_remove":"","WHICH":"1"}, harness="h_remove", enforce="w_remove")
inst("clear","DataHashTable::clear() then has(h)",[IDX,{"function":H+r"clear\(.*\)","loop":0}],
  [{"name":"skip_first","slice":"DHT_clear.inc","find":"for(int i = 0;","replace":"for(int i = 1;"},
   {"name":"used","slice":"DHT_clear.inc","find":"m_used = 0;","replace":"m_used = 1;"}], min_obligations=15)
EXPECTED_S={'lookup': 22, 'add': 28, 'remove': 25, 'remove_other': 28, 'clear': 10}
THOROUGH_ONLY=[]
for _i in u["instances"]:
    if _i["name"] in EXPECTED_S: _i["expected_s"]=EXPECTED_S[_i["name"]]
    if _i["name"] in THOROUGH_ONLY: _i["tier"]="thorough"
json.dump(u, open(os.path.join(os.path.dirname(os.path.abspath(__file__)), "unit.json"), "w"), indent=1)
