/* C19: DataHashTable<HashItem, Info> (src/soplex/datahashtable.h), HashItem = Info = int.
 * Real bodies of index, has, get, add, remove, clear (and reMax in its own instance); the member list of class Element
 * (item, info, enum states { FREE, RELEASED, USED } stat) is extracted verbatim.  DataHashTableHost replicates the data
 * members the bodies use (m_elem, m_hashsize, m_used, m_hashfun, m_memfactor; conformance-checked).
 * Array<Elem> (a std::vector wrapper) is the stub ElemArray: a block of exactly size() elements, operator[] carries the
 * obligation 0 <= n < size().  The hash function is the uninterpreted function `hash` of the key (called through the
 * real function pointer m_hashfun).
 * The wrappers copy the table in from / out to three int arrays (item, info, stat), straight-line code (rep.h). */
#include "verif.h"
#include "constants.h"
#include "rep.h"

typedef double Real;
typedef int HashItem;
typedef int Info;
/* `auto i = hash % m_elem.size()` and `decltype(m_elem.size()) i`: Array::size() returns int (conformance-checked) */
#define auto int
#define decltype(e) int

extern "C" int __CPROVER_uninterpreted_hash(int);
static int verif_hash(const HashItem* h)
{
   return __CPROVER_uninterpreted_hash(*h);
}

struct DataHashTableHost
{
   struct Elem
   {
      typedef HashItem ElemHashItem;
      typedef Info     ElemInfo;
   public:
#include "Element_members.inc"
   };
   struct ElemArray
   {
      Elem* data_;
      int   n_;
      int size() const { return n_; }
      Elem& operator[](int n)
      {
         __CPROVER_assert(0 <= n && n < n_, "Array<Elem>::operator[]: index in range");
         return data_[n];
      }
      const Elem& operator[](int n) const
      {
         __CPROVER_assert(0 <= n && n < n_, "Array<Elem>::operator[]: index in range");
         return data_[n];
      }
   };

   ElemArray m_elem;
   int m_hashsize;
   int m_used;
   int (*m_hashfun)(const HashItem*);
   Real m_memfactor;

   int index(const HashItem& h) const
   {
#include "DHT_index.inc"
   }
   bool has(const HashItem& h) const
   {
#include "DHT_has.inc"
   }
   const Info* get(const HashItem& h) const
   {
#include "DHT_get.inc"
   }
#if defined(INST_add)
   /* instance add: the precondition excludes growth (m_used < size() * FILLFACTOR); reMax must not be reached */
   void reMax(int newSize = -1, int newHashSize = 0) 
   {
      __CPROVER_assert(0, "add(): the table does not grow under the instance's precondition");
      __CPROVER_assume(0);
   }
   void add(const HashItem& h, const Info& info)
   {
#include "DHT_add.inc"
   }
#endif
#if defined(INST_remove)
   void remove(const HashItem& h)
   {
#include "DHT_remove.inc"
   }
#endif
#if defined(INST_clear)
   void clear()
   {
#include "DHT_clear.inc"
   }
#endif
};

typedef DataHashTableHost::Elem Elem;
#define CPIN(s)  e[s].item = item[s]; e[s].info = info[s]; e[s].stat = (DataHashTableHost::Elem::states)stat[s]
#define CPOUT(s) item[s] = e[s].item; info[s] = e[s].info; stat[s] = (int)e[s].stat
#define MKTAB(t) Elem e[CAP]; REP_DO(CPIN) DataHashTableHost t; t.m_elem.data_ = e; t.m_elem.n_ = n; t.m_hashsize = hs; \
   t.m_used = *used; t.m_hashfun = verif_hash; t.m_memfactor = 2.0
#define PUTTAB(t) REP_DO(CPOUT) *used = t.m_used

#ifdef INST_lookup
extern "C" void w_lookup(int* item, int* info, int* stat, int n, int hs, int* used, int h,
                         int* out_idx, int* out_has, int* out_null, int* out_val, const int* cnt)
{
   MKTAB(t);
   *out_idx = t.index(h);
   *out_has = t.has(h);
   const Info* p = t.get(h);
   *out_null = (p == 0);
   *out_val = p ? *p : 0;
   PUTTAB(t);
}
#endif

#ifdef INST_add
extern "C" void w_add(int* item, int* info, int* stat, int n, int hs, int* used, int h, int inf,
                      int* out_idx, int* out_val, const int* cnt)
{
   MKTAB(t);
   t.add(h, inf);
   *out_idx = t.index(h);
   const Info* p = t.get(h);
   *out_val = p ? *p : 0;
   PUTTAB(t);
}
#endif

#ifdef INST_remove
/* which == 0: remove(h), then has(h);  which == 1: remove(h), then index(h2) / get(h2) for another key h2 */
extern "C" void w_remove(int* item, int* info, int* stat, int n, int hs, int* used, int h, int h2, int which,
                         int* out_has, int* out2_idx, int* out2_val, const int* cnt)
{
   MKTAB(t);
   t.remove(h);
   if(which == 0)
      *out_has = t.has(h);
   else
   {
      const Info* p = t.get(h2);
      *out2_idx = p ? (int)((const Elem*)((const char*)p - ((const char*)&e[0].info - (const char*)&e[0])) - e) : -1;
      *out2_val = p ? *p : 0;
   }
   PUTTAB(t);
}
#endif

#ifdef INST_clear
extern "C" void w_clear(int* item, int* info, int* stat, int n, int hs, int* used, int h, int* out_has)
{
   MKTAB(t);
   t.clear();
   *out_has = t.has(h);
   PUTTAB(t);
}
#endif
