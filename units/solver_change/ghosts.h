/* Ghost globals of unit solver_change.  Defined in contract.c (C), declared extern "C" in unit.cpp. */
#ifdef __cplusplus
extern "C" {
#define GH_EXTERN extern
#else
#define GH_EXTERN
#endif
/* ---- ghost inputs: havoc'd by the harness, constrained by requires, never assigned by the code */
GH_EXTERN int g_k;        /* "for all k" */
GH_EXTERN int g_a;        /* "for all attributes" (frame) */
GH_EXTERN int g_nr;       /* nRows() */
GH_EXTERN int g_nc;       /* nCols() */
GH_EXTERN int g_bstat;    /* SPxBasisBase<R>::status() */
GH_EXTERN double g_eps;   /* tolerances()->epsilon() */
GH_EXTERN double g_img1;  /* arbitrary image of a scalar under scaling / unscaling (first, second value) */
GH_EXTERN double g_img2;
GH_EXTERN double v_old;   /* value of the frame cell before the call */
GH_EXTERN double v_raw1;  /* raw / unscaled value of the touched cell(s) before the call */
GH_EXTERN double v_uns1;
GH_EXTERN double v_raw2;
GH_EXTERN double v_uns2;
/* ---- recorders */
GH_EXTERN int g_seq;                 /* global call clock */
GH_EXTERN int GI[8];
#define g_lp_calls     GI[0]         /* calls of any SPxLPBase<R> mutator */
#define g_force_calls  GI[1]         /* forceRecompNonbasicValue() */
#define g_force_seq    GI[2]         /* clock of the FIRST call */
#define g_uninit_calls GI[3]         /* unInit() */
#define g_uninit_seq   GI[4]         /* clock of the LAST call */
GH_EXTERN int GL[5 * 22];            /* per LP mutator m: calls, i, j, scale, clock of the last call */
#define GL_calls(m) GL[5 * (m)]
#define GL_i(m)     GL[5 * (m) + 1]
#define GL_j(m)     GL[5 * (m) + 2]
#define GL_scale(m) GL[5 * (m) + 3]
#define GL_seq(m)   GL[5 * (m) + 4]
GH_EXTERN double GLV[2 * 22];        /* per LP mutator: value(s) handed over */
#define GL_v1(m) GLV[2 * (m)]
#define GL_v2(m) GLV[2 * (m) + 1]
GH_EXTERN const double* GLP[2 * 22]; /* per LP mutator: vector(s) handed over (identity) */
#define GL_p1(m) GLP[2 * (m)]
#define GL_p2(m) GLP[2 * (m) + 1]
GH_EXTERN int g_eq_calls;           /* EQ(a, b, eps) consulted / its last verdict */
GH_EXTERN int g_eq_res;
GH_EXTERN long long g_tag;           /* identity of the LPRow / LPCol handed to changeRow / changeCol */
/* change{Lhs,Rhs,Lower,Upper}Status(i, new, old): calls, i of the last call, calls with i == g_k, clock of first call, clock of last call */
GH_EXTERN int GS0[5]; GH_EXTERN int GS1[5]; GH_EXTERN int GS2[5]; GH_EXTERN int GS3[5];
/* new/old of the last call, new/old of the call with i == g_k */
GH_EXTERN double GD0[4]; GH_EXTERN double GD1[4]; GH_EXTERN double GD2[4]; GH_EXTERN double GD3[4];
GH_EXTERN int GB[4 * 3];             /* per basis hook: calls, i, j, clock */
#define GB_calls(h) GB[4 * (h)]
#define GB_i(h)     GB[4 * (h) + 1]
#define GB_j(h)     GB[4 * (h) + 2]
#define GB_seq(h)   GB[4 * (h) + 3]
/* ---- the LP model: current raw views [0..3] and unscaled views [4..7] of lhs, rhs, lower, upper; images [8..11] */
GH_EXTERN double* GPV[12];
#ifdef __cplusplus
}
#endif
