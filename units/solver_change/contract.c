/* Contracts of family F-solver (property C06): SPxSolverBase<R>::changeXxx of src/soplex/changesoplex.hpp.
 * One wrapper w_sc, one harness; the contract text is selected by -DKIND_<shape> and per-instance macros from gen.py.
 *
 * Top-level postcondition, from the property statement ("the LP reported by the accessor functions is exactly the LP a
 * reference model predicts", under any scaling setting): after change(i, v, scale) the accessor NAMED BY THE FLAG
 * (xxxUnscaled(i) for scale == true, xxx(i) for scale == false) reports v, and the LP mutator received the same index,
 * the same value and the same flag - exactly once, or not at all when that accessor already reported v.
 * Bookkeeping, from the code: with a basis (SPxBasisBase<R>::status() > NO_PROBLEM) changeXxxStatus(i, new stored value,
 * old stored value) runs AFTER the LP was changed, then unInit(); forceRecompNonbasicValue() where the code has it. */
#include "verif_c.h"
#include "codes.h"
#include "SPxStatus.inc"
#ifndef CAP
#define CAP 8
#endif
#include "ghosts.h"

void verif_throw(void) {}

#define BASIS (g_bstat > NO_PROBLEM)
#define SEG(s) (dbuf + (s) * CAP)
#define RAW(a) SEG(a)
#define UNS(a) SEG(4 + (a))
#define FINITE(x) (-1e308 <= (x) && (x) <= 1e308)
#define INR(k, n) (0 <= (k) && (k) < (n))
#define B01(x) ((x) == 0 || (x) == 1)

#define PARAMS int i, int j, int scale, int init0, int upto0, int rep, double nbv0, double v1, double v2, long long tag, \
   double* dbuf, double* vec1, double* vec2, int* out

#define ASSIGNS_ALL g_seq, g_eq_calls, g_eq_res, __CPROVER_object_whole(GI), __CPROVER_object_whole(GL), __CPROVER_object_whole(GLV), \
   __CPROVER_object_whole(GLP), g_tag, __CPROVER_object_whole(GS0), __CPROVER_object_whole(GS1), __CPROVER_object_whole(GS2), \
   __CPROVER_object_whole(GS3), __CPROVER_object_whole(GD0), __CPROVER_object_whole(GD1), __CPROVER_object_whole(GD2), \
   __CPROVER_object_whole(GD3), __CPROVER_object_whole(GB), __CPROVER_object_whole(GPV), __CPROVER_object_whole(dbuf), \
   __CPROVER_object_whole(out)

#define Z4(a, m) (a(m) == 0 && a((m) + 1) == 0 && a((m) + 2) == 0 && a((m) + 3) == 0)
#define REQ_STATE \
   __CPROVER_requires(0 <= g_nr && g_nr <= CAP && 0 <= g_nc && g_nc <= CAP && B01(scale) && B01(init0) && B01(upto0) && (rep == 1 || rep == -1)) \
   __CPROVER_requires(NO_PROBLEM <= g_bstat && g_bstat <= INFEASIBLE) \
   __CPROVER_requires(0 <= g_eps && g_eps <= 1) \
   __CPROVER_requires(FINITE(v1) && FINITE(v2) && FINITE(nbv0) && FINITE(g_img1) && FINITE(g_img2)) \
   __CPROVER_requires(__CPROVER_is_fresh(dbuf, NSEG * CAP * sizeof(double)) && __CPROVER_is_fresh(vec1, CAP * sizeof(double))) \
   __CPROVER_requires(__CPROVER_is_fresh(vec2, CAP * sizeof(double)) && __CPROVER_is_fresh(out, 4 * sizeof(int))) \
   __CPROVER_requires(g_eq_calls == 0 && g_seq == 0 && g_lp_calls == 0 && g_force_calls == 0 && g_uninit_calls == 0) \
   __CPROVER_requires(Z4(GL_calls, 0) && Z4(GL_calls, 4) && Z4(GL_calls, 8) && Z4(GL_calls, 12) && Z4(GL_calls, 16) && GL_calls(20) == 0 && GL_calls(21) == 0) \
   __CPROVER_requires(GS0[0] == 0 && GS1[0] == 0 && GS2[0] == 0 && GS3[0] == 0 && GS0[2] == 0 && GS1[2] == 0 && GS2[2] == 0 && GS3[2] == 0) \
   __CPROVER_requires(GB_calls(B_row) == 0 && GB_calls(B_col) == 0 && GB_calls(B_elem) == 0)
/* frame: an arbitrary cell (segment g_a, index g_k) of the LP model's storage */
#define CELL (dbuf[g_a * CAP + g_k])
#define REQ_FRAME __CPROVER_requires(0 <= g_a && g_a < 8 && 0 <= g_k && g_k < CAP && v_old == CELL && FINITE(v_old))
/* vector instances: the entries at the ghost index are finite numbers (arguments and the arbitrary scaling images) */
#define REQ_VEC __CPROVER_requires(FINITE(vec1[g_k]) && FINITE(vec2[g_k]) && FINITE(SEG(8)[g_k]) && FINITE(SEG(9)[g_k]) && FINITE(SEG(10)[g_k]) && FINITE(SEG(11)[g_k]))
#define TOUCHED(a, idx) ((g_a == (a) || g_a == 4 + (a)) && g_k == (idx))
#define NO_HOOKS (GB_calls(B_row) == 0 && GB_calls(B_col) == 0 && GB_calls(B_elem) == 0)
#define NO_STATUS (GS0[0] == 0 && GS1[0] == 0 && GS2[0] == 0 && GS3[0] == 0)
#define N_STATUS (GS0[0] + GS1[0] + GS2[0] + GS3[0])
#define NOTHING_HAPPENED (g_lp_calls == 0 && g_force_calls == 0 && g_uninit_calls == 0 && NO_STATUS && NO_HOOKS && out[0] == init0 && out[1] == upto0)
#define RECOMP_FORCED (out[1] == 0 && out[2] == 1 && g_force_calls >= 1)
/* the LP mutator m was called exactly once with (idx, val, scale) */
#define LP_GOT_I(m, idx, val) (GL_calls(m) == 1 && GL_i(m) == (idx) && GL_v1(m) == (val) && GL_scale(m) == scale)
#define LP_GOT_V(m, vec) (GL_calls(m) == 1 && GL_p1(m) == (vec) && GL_scale(m) == scale)
/* status recorder (S, D) saw exactly one call (idx, current stored value, old stored value), after LP mutator m */
#define STATUS_GOT(S, D, idx, a, oldv, m) (S[0] == 1 && S[1] == (idx) && D[0] == RAW(a)[idx] && D[1] == (oldv) && S[3] > GL_seq(m))
#define ABSD(x) ((x) < 0 ? -(x) : (x))

/* ============================================================================================================ */
#ifdef KIND_side1
/* changeLhs / changeRhs / changeLower / changeUpper (int i, const R& v, bool scale): ATTR, LM (LP mutator), SGS/SGD (status recorder) */
#define CHG1 (v1 != (scale ? v_uns1 : v_raw1))
void w_sc(PARAMS)
REQ_STATE
REQ_FRAME
__CPROVER_requires(0 <= i && i < DIM1 && v_raw1 == RAW(ATTR)[i] && v_uns1 == UNS(ATTR)[i] && FINITE(v_raw1) && FINITE(v_uns1))
__CPROVER_assigns(ASSIGNS_ALL)
__CPROVER_ensures((scale ? UNS(ATTR)[i] : RAW(ATTR)[i]) == v1)
__CPROVER_ensures(CHG1 ==> (g_lp_calls == 1 && LP_GOT_I(LM, i, v1)))
__CPROVER_ensures(!CHG1 ==> NOTHING_HAPPENED)
__CPROVER_ensures(CHG1 ==> RECOMP_FORCED)
__CPROVER_ensures((CHG1 && BASIS) ==> (STATUS_GOT(SGS, SGD, i, ATTR, v_raw1, LM) && N_STATUS == 1 && out[0] == 0 && g_uninit_seq > SGS[4]))
__CPROVER_ensures((CHG1 && !BASIS) ==> (NO_STATUS && g_uninit_calls == 0 && out[0] == init0))
__CPROVER_ensures(NO_HOOKS)
__CPROVER_ensures(TOUCHED(ATTR, i) || CELL == v_old)
;
#endif

/* ============================================================================================================ */
#ifdef KIND_bounds_i
/* changeBounds(int i, const R& newLower, const R& newUpper, bool scale) = changeLower(i, ..) ; changeUpper(i, ..) (real bodies) */
#define CHGa (v1 != (scale ? v_uns1 : v_raw1))
#define CHGb (v2 != (scale ? v_uns2 : v_raw2))
void w_sc(PARAMS)
REQ_STATE
REQ_FRAME
__CPROVER_requires(0 <= i && i < g_nc && v_raw1 == RAW(A_low)[i] && v_uns1 == UNS(A_low)[i] && v_raw2 == RAW(A_up)[i] && v_uns2 == UNS(A_up)[i])
__CPROVER_requires(FINITE(v_raw1) && FINITE(v_uns1) && FINITE(v_raw2) && FINITE(v_uns2))
__CPROVER_assigns(ASSIGNS_ALL)
__CPROVER_ensures((scale ? UNS(A_low)[i] : RAW(A_low)[i]) == v1 && (scale ? UNS(A_up)[i] : RAW(A_up)[i]) == v2)
__CPROVER_ensures(g_lp_calls == (CHGa ? 1 : 0) + (CHGb ? 1 : 0))
__CPROVER_ensures(CHGa ? LP_GOT_I(L_changeLower_i, i, v1) : GL_calls(L_changeLower_i) == 0)
__CPROVER_ensures(CHGb ? LP_GOT_I(L_changeUpper_i, i, v2) : GL_calls(L_changeUpper_i) == 0)
__CPROVER_ensures((CHGa || CHGb) ? RECOMP_FORCED : NOTHING_HAPPENED)
__CPROVER_ensures((CHGa && BASIS) ? STATUS_GOT(GS2, GD2, i, A_low, v_raw1, L_changeLower_i) : GS2[0] == 0)
__CPROVER_ensures((CHGb && BASIS) ? STATUS_GOT(GS3, GD3, i, A_up, v_raw2, L_changeUpper_i) : GS3[0] == 0)
__CPROVER_ensures(((CHGa || CHGb) && BASIS) ? (out[0] == 0 && (!CHGa || g_uninit_seq > GS2[4]) && (!CHGb || g_uninit_seq > GS3[4])) : (out[0] == init0 && g_uninit_calls == 0))
__CPROVER_ensures(GS0[0] == 0 && GS1[0] == 0 && NO_HOOKS)
__CPROVER_ensures(TOUCHED(A_low, i) || TOUCHED(A_up, i) || CELL == v_old)
;
#endif

/* ============================================================================================================ */
#ifdef KIND_range_i
/* changeRange(int i, const R& newLhs, const R& newRhs, bool scale): BOTH sides are always forwarded, with the flag.
 * VALUE_DOMAIN: the arguments for which the right-hand side handed to the LP is claimed to be newRhs itself
 * (instance changeRange_i: newLhs == newRhs, or the tolerance comparison EQ(newLhs, newRhs, epsilon) - real body - was not
 * consulted or said 'different', i.e. |newLhs - newRhs| > epsilon; instance changeRange_i_exactrhs: all arguments) */
void w_sc(PARAMS)
REQ_STATE
REQ_FRAME
__CPROVER_requires(0 <= i && i < g_nr && v_raw1 == RAW(A_lhs)[i] && v_raw2 == RAW(A_rhs)[i] && FINITE(v_raw1) && FINITE(v_raw2))
__CPROVER_assigns(ASSIGNS_ALL)
__CPROVER_ensures((scale ? UNS(A_lhs)[i] : RAW(A_lhs)[i]) == v1)
__CPROVER_ensures(VALUE_DOMAIN ==> (scale ? UNS(A_rhs)[i] : RAW(A_rhs)[i]) == v2)
__CPROVER_ensures(g_lp_calls == 2 && LP_GOT_I(L_changeLhs_i, i, v1))
__CPROVER_ensures(GL_calls(L_changeRhs_i) == 1 && GL_i(L_changeRhs_i) == i && GL_scale(L_changeRhs_i) == scale)
__CPROVER_ensures(VALUE_DOMAIN ==> GL_v1(L_changeRhs_i) == v2)
__CPROVER_ensures(BASIS ==> (STATUS_GOT(GS0, GD0, i, A_lhs, v_raw1, L_changeLhs_i) && GS0[3] > GL_seq(L_changeRhs_i)))
__CPROVER_ensures(BASIS ==> (STATUS_GOT(GS1, GD1, i, A_rhs, v_raw2, L_changeRhs_i) && GS1[3] > GL_seq(L_changeLhs_i)))
__CPROVER_ensures(BASIS ==> (N_STATUS == 2 && out[0] == 0 && g_uninit_seq > GS0[4] && g_uninit_seq > GS1[4]))
__CPROVER_ensures(!BASIS ==> (NO_STATUS && g_uninit_calls == 0 && out[0] == init0))
__CPROVER_ensures(NO_HOOKS)
__CPROVER_ensures(TOUCHED(A_lhs, i) || TOUCHED(A_rhs, i) || CELL == v_old)
;
#endif

/* ============================================================================================================ */
#ifdef KIND_obj_i
/* changeObj / changeMaxObj / changeRowObj (int i, const R& newVal, bool scale): LM */
void w_sc(PARAMS)
REQ_STATE
REQ_FRAME
__CPROVER_requires(0 <= i && i < DIM1)
__CPROVER_assigns(ASSIGNS_ALL)
__CPROVER_ensures(g_lp_calls == 1 && LP_GOT_I(LM, i, v1))
__CPROVER_ensures(RECOMP_FORCED && out[0] == 0 && g_uninit_seq > GL_seq(LM))
__CPROVER_ensures(NO_STATUS && NO_HOOKS && CELL == v_old)
;
#endif

#ifdef KIND_obj_v
/* changeObj / changeMaxObj / changeRowObj (const VectorBase<R>& newObj, bool scale): LM */
void w_sc(PARAMS)
REQ_STATE
REQ_FRAME
__CPROVER_assigns(ASSIGNS_ALL)
__CPROVER_ensures(g_lp_calls == 1 && LP_GOT_V(LM, vec1))
__CPROVER_ensures(RECOMP_FORCED && out[0] == 0 && g_uninit_seq > GL_seq(LM))
__CPROVER_ensures(NO_STATUS && NO_HOOKS && CELL == v_old)
;
#endif

/* ============================================================================================================ */
#ifdef KIND_elem
/* changeElement(int i, int j, const R& val, bool scale) */
#define NEG (i < 0 || j < 0)
void w_sc(PARAMS)
REQ_STATE
REQ_FRAME
__CPROVER_requires(i < g_nr && j < g_nc)
__CPROVER_assigns(ASSIGNS_ALL)
__CPROVER_ensures(NEG ==> NOTHING_HAPPENED)
__CPROVER_ensures(!NEG ==> (g_lp_calls == 1 && LP_GOT_I(L_changeElement, i, v1) && GL_j(L_changeElement) == j))
__CPROVER_ensures(!NEG ==> (RECOMP_FORCED && out[0] == 0 && g_uninit_seq > GL_seq(L_changeElement)))
__CPROVER_ensures((!NEG && BASIS) ? (GB_calls(B_elem) == 1 && GB_i(B_elem) == i && GB_j(B_elem) == j && GB_seq(B_elem) > GL_seq(L_changeElement) && g_uninit_seq > GB_seq(B_elem)) : GB_calls(B_elem) == 0)
__CPROVER_ensures(NO_STATUS && GB_calls(B_row) == 0 && GB_calls(B_col) == 0 && CELL == v_old)
;
#endif

#ifdef KIND_rowcol
/* changeRow(int i, const LPRowBase<R>&, bool scale) / changeCol(int i, const LPColBase<R>&, bool scale): LM, HOOK, OTHER1, OTHER2;
 * SKIP: the argument for which the code documents an early return (changeCol: i < 0) */
void w_sc(PARAMS)
REQ_STATE
REQ_FRAME
__CPROVER_requires(i < DIM1 && (SKIP || 0 <= i))
__CPROVER_assigns(ASSIGNS_ALL)
__CPROVER_ensures(SKIP ==> NOTHING_HAPPENED)
__CPROVER_ensures(!SKIP ==> (g_lp_calls == 1 && GL_calls(LM) == 1 && GL_i(LM) == i && g_tag == tag && GL_scale(LM) == scale))
__CPROVER_ensures(!SKIP ==> (RECOMP_FORCED && out[0] == 0 && g_uninit_seq > GL_seq(LM)))
__CPROVER_ensures((!SKIP && BASIS) ? (GB_calls(HOOK) == 1 && GB_i(HOOK) == i && GB_seq(HOOK) > GL_seq(LM) && g_uninit_seq > GB_seq(HOOK)) : GB_calls(HOOK) == 0)
__CPROVER_ensures(NO_STATUS && GB_calls(OTHER1) == 0 && GB_calls(OTHER2) == 0 && CELL == v_old)
;
#endif

#ifdef KIND_sense
/* changeSense(SPxSense sns): the wrapper passes MAXIMIZE for i > 0, MINIMIZE otherwise */
void w_sc(PARAMS)
REQ_STATE
REQ_FRAME
__CPROVER_assigns(ASSIGNS_ALL)
__CPROVER_ensures(g_lp_calls == 1 && GL_calls(L_changeSense) == 1 && GL_i(L_changeSense) == (i > 0 ? 1 : -1))
__CPROVER_ensures(out[0] == 0 && g_uninit_seq > GL_seq(L_changeSense))
__CPROVER_ensures(NO_STATUS && NO_HOOKS && CELL == v_old)
;
#endif

/* ============================================================================================================ */
/* status recorder (S, D) saw one call per index below n; at the ghost index: (g_k, current stored value, default old value 0) */
#define STATUS_ALL(S, D, a, n, m) (S[0] == (n) && (!INR(g_k, n) || (S[2] == 1 && D[2] == GPV[a][g_k] && D[3] == 0.0)) && ((n) == 0 || S[3] > GL_seq(m)))
#ifdef KIND_vec1
/* changeLhs / changeRhs / changeLower / changeUpper (const VectorBase<R>& v, bool scale): ATTR, LMV, SGS/SGD */
void w_sc(PARAMS)
REQ_STATE
REQ_FRAME
REQ_VEC
__CPROVER_assigns(ASSIGNS_ALL)
__CPROVER_ensures(!INR(g_k, DIM1) || (scale ? GPV[4 + ATTR] : GPV[ATTR])[g_k] == vec1[g_k])
__CPROVER_ensures(g_lp_calls == 1 && LP_GOT_V(LMV, vec1) && RECOMP_FORCED)
__CPROVER_ensures(BASIS ==> (STATUS_ALL(SGS, SGD, ATTR, DIM1, LMV) && N_STATUS == DIM1))
__CPROVER_ensures(BASIS ==> (out[0] == 0 && g_uninit_calls == 1 && g_uninit_seq > GL_seq(LMV) && (DIM1 == 0 || g_uninit_seq > SGS[4])))
__CPROVER_ensures(!BASIS ==> (NO_STATUS && g_uninit_calls == 0 && out[0] == init0))
__CPROVER_ensures(NO_HOOKS && CELL == v_old)
;
#endif

#ifdef KIND_vec2
/* changeRange / changeBounds (const VectorBase<R>& v, const VectorBase<R>& w, bool scale): A1, A2, LMV1, LMV2, S1/D1, S2/D2, OS1, OS2 */
void w_sc(PARAMS)
REQ_STATE
REQ_FRAME
REQ_VEC
__CPROVER_assigns(ASSIGNS_ALL)
__CPROVER_ensures(!INR(g_k, DIM1) || ((scale ? GPV[4 + A1] : GPV[A1])[g_k] == vec1[g_k] && (scale ? GPV[4 + A2] : GPV[A2])[g_k] == vec2[g_k]))
__CPROVER_ensures(g_lp_calls == 2 && LP_GOT_V(LMV1, vec1) && LP_GOT_V(LMV2, vec2) && RECOMP_FORCED)
__CPROVER_ensures(BASIS ==> (STATUS_ALL(S1, D1, A1, DIM1, LMV1) && STATUS_ALL(S2, D2, A2, DIM1, LMV2) && N_STATUS == 2 * DIM1))
__CPROVER_ensures(BASIS ==> (out[0] == 0 && g_uninit_calls >= 1 && g_uninit_seq > GL_seq(LMV1) && g_uninit_seq > GL_seq(LMV2) && (DIM1 == 0 || (g_uninit_seq > S1[4] && g_uninit_seq > S2[4]))))
__CPROVER_ensures(!BASIS ==> (NO_STATUS && g_uninit_calls == 0 && out[0] == init0))
__CPROVER_ensures(NO_HOOKS && CELL == v_old)
;
#endif

void h_sc(void)
{
   int i, j, scale, init0, upto0, rep; double nbv0, v1, v2; long long tag; double* dbuf; double* vec1; double* vec2; int* out;
   g_k = nondet_int(); g_a = nondet_int(); g_nr = nondet_int(); g_nc = nondet_int(); g_bstat = nondet_int();
   g_eps = nondet_double(); g_img1 = nondet_double(); g_img2 = nondet_double();
   v_old = nondet_double(); v_raw1 = nondet_double(); v_uns1 = nondet_double(); v_raw2 = nondet_double(); v_uns2 = nondet_double();
   w_sc(i, j, scale, init0, upto0, rep, nbv0, v1, v2, tag, dbuf, vec1, vec2, out);
   CANARY();
}
