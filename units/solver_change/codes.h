/* Codes shared by unit.cpp and contract.c of unit solver_change. */
#ifndef SOLVER_CHANGE_CODES_H
#define SOLVER_CHANGE_CODES_H
/* mutators of SPxLPBase<R> (ghost-recording stubs): one recorder each */
#define L_changeLhs_i     0
#define L_changeLhs_v     1
#define L_changeRhs_i     2
#define L_changeRhs_v     3
#define L_changeLower_i   4
#define L_changeLower_v   5
#define L_changeUpper_i   6
#define L_changeUpper_v   7
#define L_changeObj_i     8
#define L_changeObj_v     9
#define L_changeMaxObj_i  10
#define L_changeMaxObj_v  11
#define L_changeRowObj_i  12
#define L_changeRowObj_v  13
#define L_changeElement   14
#define L_changeRow       15
#define L_changeCol       16
#define L_changeRange_i   17
#define L_changeRange_v   18
#define L_changeBounds_i  19
#define L_changeBounds_v  20
#define L_changeSense     21
#define NL                22
/* side / bound attributes of the LP model: raw (stored) view a, user-space (unscaled) view 4 + a */
#define A_lhs 0
#define A_rhs 1
#define A_low 2
#define A_up  3
/* basis hooks SPxBasisBase<R>::changedRow / changedCol / changedElement */
#define B_row  0
#define B_col  1
#define B_elem 2
/* segments of dbuf (CAP doubles each): 0..3 raw lhs,rhs,low,up; 4..7 unscaled views; 8,9 raw images of vec1,vec2 when
 * scale == true; 10,11 unscaled images of vec1,vec2 when scale == false */
#define NSEG 12
#endif
