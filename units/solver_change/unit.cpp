/* C06, family F-solver: the SOLVER-level modifiers of SPxSolverBase<R> (src/soplex/changesoplex.hpp).  These run when the
 * LP is loaded in the solver (SoPlexBase::_changeRangeReal calls _solver.changeRange(i, lhs, rhs, scale)); each must hand
 * SPxLPBase<R>::changeXxx the SAME index, the SAME value(s) and the SAME scale flag, and do the solver-side bookkeeping
 * (changeXxxStatus, unInit, forceRecompNonbasicValue) the code documents when a basis exists.
 *
 * The bodies under contract are #included verbatim as members of the host H (loop-free ones with their real parameter
 * lists; the vector variants, which loop over the rows/columns, as zero-argument members body_<fn>_v() whose prologue binds
 * the real parameter names).  H stands for SPxSolverBase<R>; its two bases are
 *   SPxLPBase<R>     ghost-recording stubs of the LP mutators (one recorder per mutator: calls, index, value, scale flag,
 *                    clock) that also UPDATE an executable LP model: per side/bound a raw (stored) view and a user-space
 *                    (unscaled) view; change(i, v, scale) stores v in the view named by the flag and an ARBITRARY image in
 *                    the other (the scaling arithmetic itself is property C09, units lp_scale / lp_addscale)
 *   SPxBasisBase<R>  status() (ghost), changedRow/changedCol/changedElement (ghost recorders)
 * Both bases are data-free (README 16: CBMC does not adjust `this` for the second base; all state is in C globals).
 * forceRecompNonbasicValue() and unInit() are the REAL bodies (sliced), EQ() is the real body over a fabs stub.
 * change{Lhs,Rhs,Lower,Upper}Status are ghost recorders (their own logic is not under contract here). */
#include "verif.h"
#include "codes.h"
#ifndef CAP
#define CAP 8
#endif
typedef double R;
typedef double Real;
#include "ghosts.h"

struct SPxOut { static void debug(const void*, const char*, ...) {} };

inline double spxAbs(double a) { return a < 0 ? -a : a; }
inline bool EQ_real(double a, double b, double eps)
{
#include "EQ.inc"
}
/* the real EQ, with its verdict recorded (contracts name the tolerance comparison by its result, not by a second subtraction) */
inline bool EQ(double a, double b, double eps) { bool r = EQ_real(a, b, eps); g_eq_calls++; g_eq_res = r ? 1 : 0; return r; }

template <class T> struct VectorBase
{
   const T* val; int dimen;
   int dim() const { return dimen; }
   T operator[](int n) const { __CPROVER_assert(0 <= n && n < dimen, "VectorBase index in bounds"); return val[n]; }
};
template <class T> struct LPRowBase { long long tag; };
template <class T> struct LPColBase { long long tag; };
struct Tolerances { double eps; double epsilon() const { return eps; } };

#define REC(m, ii, jj, sc) { g_lp_calls++; GL_calls(m)++; GL_i(m) = (ii); GL_j(m) = (jj); GL_scale(m) = (sc) ? 1 : 0; GL_seq(m) = ++g_seq; }
#define DIM_OF(a) ((((a) & 3) <= A_rhs) ? g_nr : g_nc)
/* scalar store: the entered value goes to the view named by the flag, an arbitrary image to the other */
#define SETI(a, ii, v, sc, img) { __CPROVER_assert(0 <= (ii) && (ii) < DIM_OF(a), "LP index in bounds"); \
      if(sc) { GPV[4 + (a)][ii] = (v); GPV[a][ii] = (img); } else { GPV[a][ii] = (v); GPV[4 + (a)][ii] = (img); } }
/* vector store: the view named by the flag becomes the entered vector, the other an arbitrary image (segment 8 + w / 10 + w) */
#define SETV(a, vec, sc, w) { if(sc) { GPV[4 + (a)] = (double*)(vec).val; GPV[a] = GPV[8 + (w)]; } else { GPV[a] = (double*)(vec).val; GPV[4 + (a)] = GPV[10 + (w)]; } }

template <class T> struct SPxLPBase
{
#include "SPxSense.inc"
#define LP1(NAME, CODE, ATTR)                                                                        \
   void NAME(int i, const T& v, bool scale = false) { REC(CODE##_i, i, -1, scale) GL_v1(CODE##_i) = v; SETI(ATTR, i, v, scale, g_img1) } \
   void NAME(const VectorBase<T>& v, bool scale = false) { REC(CODE##_v, -1, -1, scale) GL_p1(CODE##_v) = v.val; SETV(ATTR, v, scale, 0) }
#define LPO(NAME, CODE)                                                                              \
   void NAME(int i, const T& v, bool scale = false) { REC(CODE##_i, i, -1, scale) GL_v1(CODE##_i) = v; } \
   void NAME(const VectorBase<T>& v, bool scale = false) { REC(CODE##_v, -1, -1, scale) GL_p1(CODE##_v) = v.val; }
#define LP2(NAME, CODE, A1, A2)                                                                      \
   void NAME(int i, const T& v, const T& w, bool scale = false) { REC(CODE##_i, i, -1, scale) GL_v1(CODE##_i) = v; GL_v2(CODE##_i) = w; SETI(A1, i, v, scale, g_img1) SETI(A2, i, w, scale, g_img2) } \
   void NAME(const VectorBase<T>& v, const VectorBase<T>& w, bool scale = false) { REC(CODE##_v, -1, -1, scale) GL_p1(CODE##_v) = v.val; GL_p2(CODE##_v) = w.val; SETV(A1, v, scale, 0) SETV(A2, w, scale, 1) }
   LP1(changeLhs, L_changeLhs, A_lhs)
   LP1(changeRhs, L_changeRhs, A_rhs)
   LP1(changeLower, L_changeLower, A_low)
   LP1(changeUpper, L_changeUpper, A_up)
   LP2(changeRange, L_changeRange, A_lhs, A_rhs)
   LP2(changeBounds, L_changeBounds, A_low, A_up)
   LPO(changeObj, L_changeObj)
   LPO(changeMaxObj, L_changeMaxObj)
   LPO(changeRowObj, L_changeRowObj)
   void changeElement(int i, int j, const T& val, bool scale = false) { REC(L_changeElement, i, j, scale) GL_v1(L_changeElement) = val; }
   void changeRow(int n, const LPRowBase<T>& newRow, bool scale = false) { REC(L_changeRow, n, -1, scale) g_tag = newRow.tag; }
   void changeCol(int n, const LPColBase<T>& newCol, bool scale = false) { REC(L_changeCol, n, -1, scale) g_tag = newCol.tag; }
   void changeSense(SPxSense sns) { REC(L_changeSense, (int)sns, -1, false) }
};

template <class T> struct SPxBasisBase
{
#include "SPxStatus.inc"
   SPxStatus status() const { return (SPxStatus)g_bstat; }
   void changedRow(int i) { GB_calls(B_row)++; GB_i(B_row) = i; GB_j(B_row) = -1; GB_seq(B_row) = ++g_seq; }
   void changedCol(int i) { GB_calls(B_col)++; GB_i(B_col) = i; GB_j(B_col) = -1; GB_seq(B_col) = ++g_seq; }
   void changedElement(int i, int j) { GB_calls(B_elem)++; GB_i(B_elem) = i; GB_j(B_elem) = j; GB_seq(B_elem) = ++g_seq; }
};

#define ST(GS, GD, ii, nv, ov) { GS[0]++; GS[1] = (ii); GD[0] = (nv); GD[1] = (ov); if((ii) == g_k) { GS[2]++; GD[2] = (nv); GD[3] = (ov); } \
      ++g_seq; if(GS[0] == 1) GS[3] = g_seq; GS[4] = g_seq; }
#define GET(a, ii) { __CPROVER_assert(0 <= (ii) && (ii) < DIM_OF(a), "LP index in bounds"); return GPV[a][ii]; }

struct H : SPxLPBase<R>, SPxBasisBase<R>
{
   /* solver members the real helper bodies write, and members a plausibly changed body would read (arbitrary values) */
   bool initialized; bool m_nonbasicValueUpToDate; R m_nonbasicValue;
   Tolerances tol_; int theRep; int theType; bool _isScaled;
   enum Representation { ROW = -1, COLUMN = 1 };
   Representation rep() const { return (Representation)theRep; }
   bool isScaled() const { return _isScaled; }
   bool isInitialized() const { return initialized; }

   /* --- LP accessors over the model */
   int nRows() const { return g_nr; }
   int nCols() const { return g_nc; }
   R lhs(int i) const GET(A_lhs, i)
   R rhs(int i) const GET(A_rhs, i)
   R lower(int i) const GET(A_low, i)
   R upper(int i) const GET(A_up, i)
   R lhsUnscaled(int i) const GET(4 + A_lhs, i)
   R rhsUnscaled(int i) const GET(4 + A_rhs, i)
   R lowerUnscaled(int i) const GET(4 + A_low, i)
   R upperUnscaled(int i) const GET(4 + A_up, i)
   Tolerances* tolerances() const { return (Tolerances*)&tol_; }

   /* --- real helper bodies, with a call recorder in front */
   void forceRecompNonbasicValue()
   {
      g_force_calls++; ++g_seq; if(g_force_calls == 1) g_force_seq = g_seq;
      {
#include "forceRecompNonbasicValue.inc"
      }
   }
   void unInit()
   {
      g_uninit_calls++; g_uninit_seq = ++g_seq;
      {
#include "unInit.inc"
      }
   }
   /* --- ghost recorders */
   void changeLhsStatus(int i, R newLhs, R oldLhs = 0.0) ST(GS0, GD0, i, newLhs, oldLhs)
   void changeRhsStatus(int i, R newRhs, R oldRhs = 0.0) ST(GS1, GD1, i, newRhs, oldRhs)
   void changeLowerStatus(int i, R newLower, R oldLower = 0.0) ST(GS2, GD2, i, newLower, oldLower)
   void changeUpperStatus(int i, R newUpper, R oldLower = 0.0) ST(GS3, GD3, i, newUpper, oldLower)

   /* --- the functions under contract */
#ifdef NEED_changeLhs_i
   void changeLhs(int i, const R& newLhs, bool scale = false)
   {
#include "changeLhs_i.inc"
   }
#endif
#ifdef NEED_changeRhs_i
   void changeRhs(int i, const R& newRhs, bool scale = false)
   {
#include "changeRhs_i.inc"
   }
#endif
#ifdef NEED_changeLower_i
   void changeLower(int i, const R& newLower, bool scale = false)
   {
#include "changeLower_i.inc"
   }
#endif
#ifdef NEED_changeUpper_i
   void changeUpper(int i, const R& newUpper, bool scale = false)
   {
#include "changeUpper_i.inc"
   }
#endif
#ifdef NEED_changeRange_i
   void changeRange(int i, const R& newLhs, const R& newRhs, bool scale = false)
   {
#include "changeRange_i.inc"
   }
#endif
#ifdef NEED_changeBounds_i
   void changeBounds(int i, const R& newLower, const R& newUpper, bool scale = false)
   {
#include "changeBounds_i.inc"
   }
#endif
#ifdef NEED_changeObj_i
   void changeObj(int i, const R& newVal, bool scale = false)
   {
#include "changeObj_i.inc"
   }
#endif
#ifdef NEED_changeMaxObj_i
   void changeMaxObj(int i, const R& newVal, bool scale = false)
   {
#include "changeMaxObj_i.inc"
   }
#endif
#ifdef NEED_changeRowObj_i
   void changeRowObj(int i, const R& newVal, bool scale = false)
   {
#include "changeRowObj_i.inc"
   }
#endif
#ifdef NEED_changeObj_v
   void changeObj(const VectorBase<R>& newObj, bool scale = false)
   {
#include "changeObj_v.inc"
   }
#endif
#ifdef NEED_changeMaxObj_v
   void changeMaxObj(const VectorBase<R>& newObj, bool scale = false)
   {
#include "changeMaxObj_v.inc"
   }
#endif
#ifdef NEED_changeRowObj_v
   void changeRowObj(const VectorBase<R>& newObj, bool scale = false)
   {
#include "changeRowObj_v.inc"
   }
#endif
#ifdef NEED_changeElement
   void changeElement(int i, int j, const R& val, bool scale = false)
   {
#include "changeElement.inc"
   }
#endif
#ifdef NEED_changeRow
   void changeRow(int i, const LPRowBase<R>& newRow, bool scale = false)
   {
#include "changeRow.inc"
   }
#endif
#ifdef NEED_changeCol
   void changeCol(int i, const LPColBase<R>& newCol, bool scale = false)
   {
#include "changeCol.inc"
   }
#endif
#ifdef NEED_changeSense
   void changeSense(SPxLPBase<R>::SPxSense sns)
   {
#include "changeSense.inc"
   }
#endif
   /* vector variants with a loop: parameter slots + zero-argument body (README 1, 2) */
#define VEC1(NAME, P1)                                                                 \
   VectorBase<R>* vp_##NAME; bool sc_##NAME;                                     \
   void NAME(const VectorBase<R>& P1, bool scale = false) { vp_##NAME = (VectorBase<R>*)&P1; sc_##NAME = scale; body_##NAME##_v(); }
#define VEC2(NAME, P1, P2)                                                             \
   VectorBase<R>* vp_##NAME; VectorBase<R>* vq_##NAME; bool sc_##NAME;     \
   void NAME(const VectorBase<R>& P1, const VectorBase<R>& P2, bool scale = false) { vp_##NAME = (VectorBase<R>*)&P1; vq_##NAME = (VectorBase<R>*)&P2; sc_##NAME = scale; body_##NAME##_v(); }
#ifdef NEED_changeLhs_v
   void body_changeLhs_v()
   {
      const VectorBase<R>& newLhs = *vp_changeLhs; bool scale = sc_changeLhs;
#include "changeLhs_v.inc"
   }
   VEC1(changeLhs, newLhs)
#endif
#ifdef NEED_changeRhs_v
   void body_changeRhs_v()
   {
      const VectorBase<R>& newRhs = *vp_changeRhs; bool scale = sc_changeRhs;
#include "changeRhs_v.inc"
   }
   VEC1(changeRhs, newRhs)
#endif
#ifdef NEED_changeLower_v
   void body_changeLower_v()
   {
      const VectorBase<R>& newLower = *vp_changeLower; bool scale = sc_changeLower;
#include "changeLower_v.inc"
   }
   VEC1(changeLower, newLower)
#endif
#ifdef NEED_changeUpper_v
   void body_changeUpper_v()
   {
      const VectorBase<R>& newUpper = *vp_changeUpper; bool scale = sc_changeUpper;
#include "changeUpper_v.inc"
   }
   VEC1(changeUpper, newUpper)
#endif
#ifdef NEED_changeRange_v
   void body_changeRange_v()
   {
      const VectorBase<R>& newLhs = *vp_changeRange; const VectorBase<R>& newRhs = *vq_changeRange; bool scale = sc_changeRange;
#include "changeRange_v.inc"
   }
   VEC2(changeRange, newLhs, newRhs)
#endif
#ifdef NEED_changeBounds_v
   void changeBounds(const VectorBase<R>& newLower, const VectorBase<R>& newUpper, bool scale = false)
   {
#include "changeBounds_v.inc"
   }
#endif
};

/* The call under contract, selected per instance: -DCALL="h.changeLhs(i, v1, scale != 0)" */
extern "C" void w_sc(int i, int j, int scale, int init0, int upto0, int rep, double nbv0, double v1, double v2, long long tag,
                     double* dbuf, double* vec1, double* vec2, int* out)
{
   VIN("i", i); VIN("j", j); VIN("scale", scale); VIN("v1", v1); VIN("v2", v2); VIN("basis_status", g_bstat); VIN("epsilon", g_eps);
   H h;
   h.initialized = init0 != 0; h.m_nonbasicValueUpToDate = upto0 != 0; h.m_nonbasicValue = nbv0;
   h.tol_.eps = g_eps; h.theRep = rep; h.theType = 0; h._isScaled = scale != 0;
   GPV[0] = dbuf; GPV[1] = dbuf + CAP; GPV[2] = dbuf + 2 * CAP; GPV[3] = dbuf + 3 * CAP;
   GPV[4] = dbuf + 4 * CAP; GPV[5] = dbuf + 5 * CAP; GPV[6] = dbuf + 6 * CAP; GPV[7] = dbuf + 7 * CAP;
   GPV[8] = dbuf + 8 * CAP; GPV[9] = dbuf + 9 * CAP; GPV[10] = dbuf + 10 * CAP; GPV[11] = dbuf + 11 * CAP;
   VectorBase<R> a, b;
   a.val = vec1; a.dimen = DIM1; b.val = vec2; b.dimen = DIM1;
   LPRowBase<R> row; row.tag = tag;
   LPColBase<R> col; col.tag = tag;
   CALL;
   out[0] = h.initialized; out[1] = h.m_nonbasicValueUpToDate; out[2] = (h.m_nonbasicValue == 0.0);
}
