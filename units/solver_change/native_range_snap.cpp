// build: g++ -std=c++14 -I/repo/src -I/repo/_build native_range_snap.cpp /repo/_build/lib/libsoplex.a -lgmp -lmpfr -lz -ltbb   (exit 1 = deviation shown)
// changeRangeReal(i, l, r) with 0 < |l - r| <= epsilon: the loaded LP stores rhs = l; the LP kept outside the solver and the rational LP store r.
#include "soplex.h"
#include <cstdio>
using namespace soplex;
int main()
{
   int bad = 0;
   for(int loaded = 0; loaded < 2; loaded++)
   {
      SoPlex s;
      s.setIntParam(SoPlex::VERBOSITY, 0);
      s.setIntParam(SoPlex::SYNCMODE, SoPlex::SYNCMODE_AUTO);
      DSVectorReal c(0);
      s.addColReal(LPColReal(1.0, c, 10.0, 0.0));
      DSVectorReal r(1); r.add(0, 1.0);
      s.addRowReal(LPRowReal(-1.0, r, 4.0));
      if(loaded) s.optimize();   // the real LP is loaded into the solver from the first solve on
      const double l = 0.0, u = 5e-17;
      s.changeRangeReal(0, l, u);
      double got = s.rhsReal(0);
      Rational q = s.rhsRational(0);
      printf("%s: changeRangeReal(0, %g, %g): rhsReal(0) = %g, rhsRational(0) = %s  %s\n", loaded ? "after optimize()" : "before any solve", l, u, got,
             q.str().c_str(), got == u ? "ok" : "DIFFERS from the entered value (and from the rational LP)");
      if(got != u) bad++;
      // vector variant for comparison
      VectorReal lv(1), uv(1); lv[0] = l; uv[0] = u;
      s.changeRangeReal(lv, uv);
      printf("   vector variant changeRangeReal(lhs, rhs): rhsReal(0) = %g\n", s.rhsReal(0));
   }
   return bad ? 1 : 0;
}
