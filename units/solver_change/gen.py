#!/usr/bin/env python3
"""Generates unit.json of unit solver_change from the table below (run after editing; the runner reads unit.json only)."""
import json, os
HERE = os.path.dirname(os.path.abspath(__file__))
F = "src/soplex/changesoplex.hpp"
Q = "SPxSolverBase<R>::"

def sig(name, params):
    return r"void\s+SPxSolverBase<R>::%s\s*\(\s*%s\s*\)" % (name, r"\s*,\s*".join(params))

I_ = r"int\s+i"; J_ = r"int\s+j"; SC = r"bool\s+scale"
def cR(n): return r"const\s+R&\s*" + n
def cV(n): return r"const\s+VectorBase<R>&\s*" + n

SL = {  # slice name -> (function name, parameter regexes)
 "changeLhs_i": ("changeLhs", [I_, cR("newLhs"), SC]), "changeLhs_v": ("changeLhs", [cV("newLhs"), SC]),
 "changeRhs_i": ("changeRhs", [I_, cR("newRhs"), SC]), "changeRhs_v": ("changeRhs", [cV("newRhs"), SC]),
 "changeLower_i": ("changeLower", [I_, cR("newLower"), SC]), "changeLower_v": ("changeLower", [cV("newLower"), SC]),
 "changeUpper_i": ("changeUpper", [I_, cR("newUpper"), SC]), "changeUpper_v": ("changeUpper", [cV("newUpper"), SC]),
 "changeRange_i": ("changeRange", [I_, cR("newLhs"), cR("newRhs"), SC]), "changeRange_v": ("changeRange", [cV("newLhs"), cV("newRhs"), SC]),
 "changeBounds_i": ("changeBounds", [I_, cR("newLower"), cR("newUpper"), SC]), "changeBounds_v": ("changeBounds", [cV("newLower"), cV("newUpper"), SC]),
 "changeObj_i": ("changeObj", [I_, cR("newVal"), SC]), "changeObj_v": ("changeObj", [cV("newObj"), SC]),
 "changeMaxObj_i": ("changeMaxObj", [I_, cR("newVal"), SC]), "changeMaxObj_v": ("changeMaxObj", [cV("newObj"), SC]),
 "changeRowObj_i": ("changeRowObj", [I_, cR("newVal"), SC]), "changeRowObj_v": ("changeRowObj", [cV("newObj"), SC]),
 "changeElement": ("changeElement", [I_, J_, cR("val"), SC]),
 "changeRow": ("changeRow", [I_, r"const\s+LPRowBase<R>&\s*newRow", SC]),
 "changeCol": ("changeCol", [I_, r"const\s+LPColBase<R>&\s*newCol", SC]),
 "changeSense": ("changeSense", [r"typename\s+SPxLPBase<R>::SPxSense\s+sns"]),
}
def slice_of(n):
    fn, ps = SL[n]
    return {"as": n + ".inc", "file": F, "sig": sig(fn, ps)}
HELPERS = [
 {"as": "forceRecompNonbasicValue.inc", "file": "src/soplex/spxsolver.h", "sig": r"void\s+forceRecompNonbasicValue\s*\(\s*\)"},
 {"as": "unInit.inc", "file": "src/soplex/spxsolver.h", "sig": r"virtual\s+void\s+unInit\s*\(\s*\)"},
 {"as": "EQ.inc", "file": "src/soplex/spxdefines.hpp", "sig": r"inline\s+bool\s+EQ\s*\(\s*R\s+a\s*,\s*S\s+b\s*,\s*T\s+eps\s*\)"},
]
ATTR = {"Lhs": ("A_lhs", "g_nr", 0), "Rhs": ("A_rhs", "g_nr", 1), "Lower": ("A_low", "g_nc", 2), "Upper": ("A_up", "g_nc", 3)}
GLSEQ = {"changeLhs_v": 1, "changeRhs_v": 3, "changeLower_v": 5, "changeUpper_v": 7}   # codes.h L_*_v

def status_loop(side, ascending=True, both=None):
    """loop contract of `for i: changeXStatus(i, this->x(i))` inside body_change<side>_v (ghost index g_k)"""
    a, n, s = ATTR[side]
    attr_idx = s
    GS, GD = "GS%d" % s, "GD%d" % s
    lseq = "GL[%d]" % (5 * GLSEQ["change%s_v" % side] + 4)
    inv = ["0 <= i && i <= %s" % n, "%s[0] == i" % GS,
           "%s[2] == ((0 <= g_k && g_k < i) ? 1 : 0)" % GS,
           "!(0 <= g_k && g_k < i) || (%s[2] == GPV[%d][g_k] && %s[3] == 0.0)" % (GD, attr_idx, GD),
           "i == 0 || (%s[3] > %s && %s[4] >= %s[3] && g_seq >= %s[4])" % (GS, lseq, GS, GS, GS),
           "g_seq >= %s && g_seq <= %d + i" % (lseq, 48 if side == "Upper" else 16)]
    return {"function": r"H::body_change%s_v\(this\)" % side, "loop": 0, "locals": ["i"], "invariants": inv,
            "assigns": ["i", "g_seq", "__CPROVER_object_whole(%s)" % GS, "__CPROVER_object_whole(%s)" % GD],
            "decreases": "%s - i" % n}

def range_loop():
    lseqL = "GL[%d]" % (5 * 1 + 4); lseqR = "GL[%d]" % (5 * 3 + 4)
    inv = ["-1 <= i && i <= g_nr - 1", "GS0[0] == g_nr - 1 - i", "GS1[0] == g_nr - 1 - i"]
    for GS, GD, a, ls in (("GS0", "GD0", 0, lseqL), ("GS1", "GD1", 1, lseqR)):
        inv += ["%s[2] == ((i < g_k && g_k < g_nr) ? 1 : 0)" % GS,
                "!(i < g_k && g_k < g_nr) || (%s[2] == GPV[%d][g_k] && %s[3] == 0.0)" % (GD, a, GD),
                "i == g_nr - 1 || (%s[3] > %s && %s[4] >= %s[3] && g_seq >= %s[4])" % (GS, ls, GS, GS, GS),
                "g_seq >= %s && g_seq <= 16 + 2 * (g_nr - 1 - i)" % ls]
    return {"function": r"H::body_changeRange_v\(this\)", "loop": 0, "locals": ["i"], "invariants": inv,
            "assigns": ["i", "g_seq", "__CPROVER_object_whole(GS0)", "__CPROVER_object_whole(GD0)", "__CPROVER_object_whole(GS1)", "__CPROVER_object_whole(GD1)"],
            "decreases": "i + 1"}

def q(s): return '"%s"' % s
insts = []
def inst(name, function, kind, call, need, defines, mutants, loops=None, dim1="g_nr", tier="quick", min_obl=60):
    d = {"KIND_" + kind: "", "CALL": call, "DIM1": dim1}
    for n in need: d["NEED_" + n] = ""
    d.update(defines)
    e = {"name": name, "function": Q + function, "defines": d, "slices": [slice_of(n) for n in need] + HELPERS,
         "min_obligations": min_obl, "tier": tier, "mutants": mutants}
    if loops: e["loops"] = loops
    insts.append(e)

def mut(name, sl, find, repl, regex=False):
    m = {"name": name, "slice": sl + ".inc", "find": find, "replace": repl}
    if regex: m["regex"] = True
    return m

# ---- one-sided scalar
for side, (a, n, s) in ATTR.items():
    nm = "change%s_i" % side; lc = side[0].lower() + side[1:]
    inst(nm, "change%s(int i, const R& new%s, bool scale)" % (side, side), "side1", "h.change%s(i, v1, scale != 0)" % side, [nm],
         {"ATTR": a, "LM": "L_change%s_i" % side, "SGS": "GS%d" % s, "SGD": "GD%d" % s}, [
          mut("scale_flag_dropped", nm, "SPxLPBase<R>::change%s(i, new%s, scale)" % (side, side), "SPxLPBase<R>::change%s(i, new%s)" % (side, side)),
          mut("compares_wrong_view", nm, "scale ? this->%sUnscaled(i) : this->%s(i)" % (lc, lc), "scale ? this->%s(i) : this->%sUnscaled(i)" % (lc, lc)),
          mut("status_before_change", nm, "change%sStatus(i, this->%s(i), old%s)" % (side, lc, side), "change%sStatus(i, old%s, old%s)" % (side, side, side)),
          mut("no_unInit", nm, "unInit();", ";")], dim1=n)
# ---- range / bounds scalar
RMUT = [mut("R2c4_rhs_scale_dropped_when_equal", "changeRange_i", r"changeRhs\(i, newLhs, scale\)", "changeRhs(i, newLhs)", True),
        mut("lhs_scale_dropped", "changeRange_i", "SPxLPBase<R>::changeLhs(i, newLhs, scale)", "SPxLPBase<R>::changeLhs(i, newLhs)"),
        mut("rhs_scale_dropped", "changeRange_i", "SPxLPBase<R>::changeRhs(i, newRhs, scale)", "SPxLPBase<R>::changeRhs(i, newRhs)"),
        mut("rhs_gets_lhs", "changeRange_i", "SPxLPBase<R>::changeRhs(i, newRhs, scale)", "SPxLPBase<R>::changeRhs(i, newLhs, scale)"),
        mut("status_old_swapped", "changeRange_i", "changeRhsStatus(i, this->rhs(i), oldRhs)", "changeRhsStatus(i, this->rhs(i), oldLhs)")]
inst("changeRange_i", "changeRange(int i, const R& newLhs, const R& newRhs, bool scale)", "range_i", "h.changeRange(i, v1, v2, scale != 0)",
     ["changeRange_i"], {"VALUE_DOMAIN": "(v1 == v2 || g_eq_calls == 0 || g_eq_res == 0)"}, RMUT)
inst("changeRange_i_exactrhs", "changeRange(int i, const R& newLhs, const R& newRhs, bool scale) [right-hand side handed over unchanged for ALL arguments]",
     "range_i", "h.changeRange(i, v1, v2, scale != 0)", ["changeRange_i"], {"VALUE_DOMAIN": "1"}, [], tier="quick")
inst("changeBounds_i", "changeBounds(int i, const R& newLower, const R& newUpper, bool scale) -> changeLower(i, ..), changeUpper(i, ..)", "bounds_i",
     "h.changeBounds(i, v1, v2, scale != 0)", ["changeBounds_i", "changeLower_i", "changeUpper_i"], {}, [
      mut("upper_scale_dropped", "changeBounds_i", "changeUpper(i, newUpper, scale)", "changeUpper(i, newUpper)"),
      mut("upper_gets_lower", "changeBounds_i", "changeUpper(i, newUpper, scale)", "changeUpper(i, newLower, scale)"),
      mut("lower_scale_dropped_inner", "changeLower_i", "SPxLPBase<R>::changeLower(i, newLower, scale)", "SPxLPBase<R>::changeLower(i, newLower)")], dim1="g_nc")
# ---- objective
for nm, dim in (("changeObj", "g_nc"), ("changeMaxObj", "g_nc"), ("changeRowObj", "g_nr")):
    inst(nm + "_i", nm + "(int i, const R& newVal, bool scale)", "obj_i", "h.%s(i, v1, scale != 0)" % nm, [nm + "_i"], {"LM": "L_%s_i" % nm}, [
         mut("scale_flag_dropped", nm + "_i", "SPxLPBase<R>::%s(i, newVal, scale)" % nm, "SPxLPBase<R>::%s(i, newVal)" % nm),
         mut("no_unInit", nm + "_i", "unInit();", ";")], dim1=dim, min_obl=40)
    inst(nm + "_v", nm + "(const VectorBase<R>& newObj, bool scale)", "obj_v", "h.%s(a, scale != 0)" % nm, [nm + "_v"], {"LM": "L_%s_v" % nm}, [
         mut("scale_flag_dropped", nm + "_v", "SPxLPBase<R>::%s(newObj, scale)" % nm, "SPxLPBase<R>::%s(newObj)" % nm),
         mut("no_recompute", nm + "_v", "forceRecompNonbasicValue();", ";")], dim1=dim, min_obl=40)
# ---- element, row, col, sense
inst("changeElement", "changeElement(int i, int j, const R& val, bool scale)", "elem", "h.changeElement(i, j, v1, scale != 0)", ["changeElement"], {}, [
     mut("scale_flag_dropped", "changeElement", "SPxLPBase<R>::changeElement(i, j, val, scale)", "SPxLPBase<R>::changeElement(i, j, val)"),
     mut("indices_swapped", "changeElement", "SPxBasisBase<R>::changedElement(i, j)", "SPxBasisBase<R>::changedElement(j, i)"),
     mut("basis_hook_always", "changeElement", "if(SPxBasisBase<R>::status() > SPxBasisBase<R>::NO_PROBLEM)", "if(SPxBasisBase<R>::status() >= SPxBasisBase<R>::NO_PROBLEM)")], min_obl=40)
inst("changeRow", "changeRow(int i, const LPRowBase<R>& newRow, bool scale)", "rowcol", "h.changeRow(i, row, scale != 0)", ["changeRow"],
     {"LM": "L_changeRow", "HOOK": "B_row", "OTHER1": "B_col", "OTHER2": "B_elem", "SKIP": "0"}, [
     mut("scale_flag_dropped", "changeRow", "SPxLPBase<R>::changeRow(i, newRow, scale)", "SPxLPBase<R>::changeRow(i, newRow)"),
     mut("wrong_hook", "changeRow", "SPxBasisBase<R>::changedRow(i)", "SPxBasisBase<R>::changedCol(i)")], min_obl=40)
inst("changeCol", "changeCol(int i, const LPColBase<R>& newCol, bool scale)", "rowcol", "h.changeCol(i, col, scale != 0)", ["changeCol"],
     {"LM": "L_changeCol", "HOOK": "B_col", "OTHER1": "B_row", "OTHER2": "B_elem", "SKIP": "(i < 0)"}, [
     mut("scale_flag_dropped", "changeCol", "SPxLPBase<R>::changeCol(i, newCol, scale)", "SPxLPBase<R>::changeCol(i, newCol)"),
     mut("hook_before_basis_test_dropped", "changeCol", "if(SPxBasisBase<R>::status() > SPxBasisBase<R>::NO_PROBLEM)", "")], dim1="g_nc", min_obl=40)
inst("changeSense", "changeSense(typename SPxLPBase<R>::SPxSense sns)", "sense", "h.changeSense(i > 0 ? SPxLPBase<R>::MAXIMIZE : SPxLPBase<R>::MINIMIZE)",
     ["changeSense"], {}, [mut("no_unInit", "changeSense", "unInit();", ";")], min_obl=30)
# ---- one-sided vectors
for side, (a, n, s) in ATTR.items():
    nm = "change%s_v" % side; lc = side[0].lower() + side[1:]
    inst(nm, "change%s(const VectorBase<R>& new%s, bool scale)" % (side, side), "vec1", "h.change%s(a, scale != 0)" % side, [nm],
         {"ATTR": a, "LMV": "L_change%s_v" % side, "SGS": "GS%d" % s, "SGD": "GD%d" % s}, [
          mut("scale_flag_dropped", nm, "SPxLPBase<R>::change%s(new%s, scale)" % (side, side), "SPxLPBase<R>::change%s(new%s)" % (side, side)),
          mut("status_skips_first", nm, "for(int i = 0;", "for(int i = 1;"),
          mut("status_gets_argument", nm, "change%sStatus(i, this->%s(i))" % (side, lc), "change%sStatus(i, new%s[i])" % (side, side))],
         loops=[status_loop(side)], dim1=n)
inst("changeRange_v", "changeRange(const VectorBase<R>& newLhs, const VectorBase<R>& newRhs, bool scale)", "vec2", "h.changeRange(a, b, scale != 0)", ["changeRange_v"],
     {"A1": "A_lhs", "A2": "A_rhs", "LMV1": "L_changeLhs_v", "LMV2": "L_changeRhs_v", "S1": "GS0", "D1": "GD0", "S2": "GS1", "D2": "GD1"}, [
      mut("rhs_scale_dropped", "changeRange_v", "SPxLPBase<R>::changeRhs(newRhs, scale)", "SPxLPBase<R>::changeRhs(newRhs)"),
      mut("rhs_gets_lhs", "changeRange_v", "SPxLPBase<R>::changeRhs(newRhs, scale)", "SPxLPBase<R>::changeRhs(newLhs, scale)"),
      mut("status_skips_last", "changeRange_v", "this->nRows() - 1; i >= 0", "this->nRows() - 2; i >= 0")], loops=[range_loop()])
inst("changeBounds_v", "changeBounds(const VectorBase<R>& newLower, const VectorBase<R>& newUpper, bool scale) -> changeLower(v, ..), changeUpper(v, ..)", "vec2",
     "h.changeBounds(a, b, scale != 0)", ["changeBounds_v", "changeLower_v", "changeUpper_v"],
     {"A1": "A_low", "A2": "A_up", "LMV1": "L_changeLower_v", "LMV2": "L_changeUpper_v", "S1": "GS2", "D1": "GD2", "S2": "GS3", "D2": "GD3"}, [
      mut("upper_scale_dropped", "changeBounds_v", "changeUpper(newUpper, scale)", "changeUpper(newUpper)"),
      mut("upper_gets_lower", "changeBounds_v", "changeUpper(newUpper, scale)", "changeUpper(newLower, scale)")],
     loops=[status_loop("Lower"), status_loop("Upper")], dim1="g_nc")

LPSIG = lambda n, p: {"file": "src/soplex/spxlpbase.h", "regex": r"virtual void %s\(%s, bool scale = false\)" % (n, p), "why": "LP stub signature and default flag: " + n}
conf = []
for s_, p_ in (("Lhs", "newLhs"), ("Rhs", "newRhs"), ("Lower", "newLower"), ("Upper", "newUpper")):
    conf.append(LPSIG("change" + s_, r"int i, const R& " + p_))
    conf.append(LPSIG("change" + s_, r"const VectorBase<R>& " + p_))
    conf.append({"file": "src/soplex/spxsolver.h", "regex": r"virtual void change%sStatus\(int i, R new%s, R old\w+ = 0\.0\);" % (s_, s_), "why": "status recorder: (i, new, old = 0.0)"})
for n_ in ("changeObj", "changeMaxObj"):
    conf.append(LPSIG(n_, r"int i, const R& newVal")); conf.append(LPSIG(n_, r"const VectorBase<R>& newObj"))
conf.append(LPSIG("changeRowObj", r"int i, const R& newRowObj")); conf.append(LPSIG("changeRowObj", r"const VectorBase<R>& newRowObj"))
conf.append(LPSIG("changeElement", r"int i, int j, const R& val"))
conf.append(LPSIG("changeRow", r"int n, const LPRowBase<R>& newRow")); conf.append(LPSIG("changeCol", r"int n, const LPColBase<R>& newCol"))
conf += [
 {"file": "src/soplex/spxbasis.h", "regex": r"SPxStatus status\(\) const\s*\{\s*return thestatus;\s*\}", "why": "basis status() is a plain getter (ghost g_bstat)"},
 {"file": "src/soplex/spxbasis.h", "regex": r"void changedRow\(int\);.*?void changedCol\(int\);.*?void changedElement\(int, int\);", "why": "basis hooks recorded"},
 {"file": "src/soplex/spxsolver.h", "regex": r"class SPxSolverBase : public SPxLPBase<R>, protected SPxBasisBase<R>", "why": "the two bases the qualified calls name"},
 {"file": "src/soplex/spxlpbase.h", "regex": r"R rhsUnscaled\(int i\) const;.*?R lhsUnscaled\(int i\) const;.*?R upperUnscaled\(int i\) const;.*?R lowerUnscaled\(int i\) const;", "why": "user-space accessors exist with these names", },
 {"file": "src/soplex.hpp", "regex": r"bool scale = _realLP->isScaled\(\);\s*_realLP->changeRange\(i, lhs, rhs, scale\);", "why": "call site: SoPlexBase::_changeRangeReal calls _realLP->changeRange(i, lhs, rhs, scale) - virtual; while the LP is loaded _realLP is the solver object, so this is SPxSolverBase<R>::changeRange"},
]
unit = {
 "property": ["C06"],
 "desc": "family F-solver: SPxSolverBase<R>::changeXxx (changesoplex.hpp) forward index, value(s) and scale flag to SPxLPBase<R>::changeXxx and do the documented basis bookkeeping",
 "rmode": "double (IEEE, bit-precise)",
 "defines": {"CAP": "8"}, "defines_small": {"CAP": "3"}, "small_unwind": 5,
 "flags": ["--bounds-check", "--pointer-check"], "timeout_s": 300, "mem_gb": 8,
 "harness": "h_sc", "enforce": "w_sc",
 "extracts": [{"as": "SPxStatus.inc", "file": "src/soplex/spxbasis.h", "regex": r"enum SPxStatus\s*\{[^{}]*\};"},
              {"as": "SPxSense.inc", "file": "src/soplex/spxlpbase.h", "regex": r"enum SPxSense\s*\{[^{}]*\};"}],
 "conformance": conf,
 "trusted": [
  "SPxLPBase<R>::changeXxx are ghost-recording stubs over an executable model: per side/bound a stored (raw) view and a user-space (unscaled) view; change(i, v, scale) puts v in the view named by the flag and an ARBITRARY value in the other (the scaling arithmetic is C09: lp_scale, lp_addscale); vector variants swap the view to the argument vector",
  "change{Lhs,Rhs,Lower,Upper}Status(i, new, old) are ghost recorders: that they receive the documented arguments in the documented order is proved, what they do to the basis descriptor is not part of this unit",
  "SPxBasisBase<R>::status() is a getter of a ghost value ranging over the whole enum SPxStatus (extracted verbatim); changedRow/changedCol/changedElement are ghost recorders",
  "virtual dispatch: the unqualified calls changeLower(..)/changeUpper(..) inside changeBounds reach SPxSolverBase's own overrides (SoPlexBase::_solver is an SPxSolverBase<R>, no further override)",
  "spxAbs(double) = |.| (stub of fabs); EQ, forceRecompNonbasicValue, unInit are the real bodies",
  "arguments and stored values are finite doubles (SoPlex's infinity is 1e100); 0 <= epsilon <= 1; at most CAP = 8 rows/columns allocated (loops are under inductive contracts, not unwound)",
 ],
 "instances": insts,
}
json.dump(unit, open(os.path.join(HERE, "unit.json"), "w"), indent=1)
print("instances:", len(insts))
