/* C09: "data added ... while persistent scaling is active is stored consistently with the existing scale factors":
 * SPxLPBase<R>::doAddRows(const LPRowSetBase<R>& set, bool scale) and ::doAddCols(const LPColSetBase<R>& set, bool scale)
 * (spxlpbase.h), R = ledger.  NEWROW selects doAddRows; the mirrored build is doAddCols.  "own" = the set the new vectors were
 * added to (rows for doAddRows), "cross" = the other set.
 *
 * What is under contract is the REGION of the function that does the scaling - the loop nest "compute new row scaling factor and
 * insert new elements to column file" (doAddRows) / "insert new elements to row file" (doAddCols), sliced verbatim by
 * region_start/region_end.  The parts of the function before it (append the set, create missing cross vectors, count and reserve
 * the new cross entries) are NOT executed: the state they leave behind is the wrapper's input, constrained in the contract by
 *   S1 own vectors oldNumber .. num()-1 are the new ones: legal sizes, nonzeros / sides / objective exactly as entered (unscaled);
 *      both exponent arrays have one entry per existing vector (LPRowSetBase/LPColSetBase::add(set): scaleExp.reSize(num()));
 *   S2 every index stored in a new vector names an existing cross vector ("create new columns if required" has run);
 *   S3 newCols[k] (newRows[k]) = number of nonzeros with index k in the new vectors, and cross vector k has already been extended
 *      by that many cells at its end (xtend + set_size): newCols[k] <= size(k) <= max(k).
 * Both loops of the region are unwound completely (at most CAPO own vectors of at most WO nonzeros; --unwinding-assertions).
 *
 * Storage model as in unit_ce.cpp / lp_mirror: each matrix copy ("file") is a flat array of Nonzero cells, vector v = cells
 * [v*MATW, v*MATW+MATW), size[v] in use.  SVector index()/value() are the real bodies (sliced).  computeScaleExp is a stub: an arbitrary bounded exponent per own vector
 * (ghost array E, indexed by the number of the vector it is called for); its real body: units scaler_scalar / lp_addscale. */
#include "verif.h"
#include "ledger.h"
#define DATAARRAY_READ_INVARIANT(v) __CPROVER_assume(-EXP_MAX <= (v) && (v) <= EXP_MAX)
#include "containers.h"
#if (CAPO != 2 && CAPO != 3) || (MATW != 2 && MATW != 3) || CAPX != 2
#error "the straight-line copy code below is written out for CAPO == 2 or 3, CAPX == 2, MATW == 2 or 3 cells per vector (both files)"
#endif
#define WO MATW
#define WX MATW
#if MATW > 2
#define IF_W3(x) x
#else
#define IF_W3(x)
#endif
#if CAPO > 2
#define IF_CAPO3(x) x
#else
#define IF_CAPO3(x)
#endif


extern "C" {
struct nzc { R val; int idx; int pad_; };   /* Nonzero<R> {val, idx} + explicit tail padding (C and C++ front ends must agree on the size) */
extern const int* gp_E; extern int g_cse_calls;
}
enum SPxSense { MAXIMIZE = 1, MINIMIZE = -1 };

#define SVectorBase SVecF
template <class T> struct SVecF
{
   nzc* elem0; int* size0; int vno;     /* the file's cell array and size array; the vector's number */
#define m_elem (elem0 + vno * MATW)
   int size() const { return size0[vno]; }
   int max() const { return MATW; }
   void set_size(int s) { size0[vno] = s; }
   int index(int n) const
   {
      __CPROVER_assert(0 <= n && n < size(), "SVector position in bounds");
#include "SV_index.inc"
   }
   int& index(int n)
   {
      __CPROVER_assert(0 <= n && n < size(), "SVector position in bounds");
#include "SV_index_w.inc"
   }
   const T& value(int n) const
   {
      __CPROVER_assert(0 <= n && n < size(), "SVector position in bounds");
#include "SV_value.inc"
   }
   T& value(int n)
   {
      __CPROVER_assert(0 <= n && n < size(), "SVector position in bounds");
#include "SV_value_w.inc"
   }
};

/* all state lives here; both bases reach it through `d` only (README point 16) */
struct LPShared
{
   int nr, nc;
   VectorBase<R> low, up, obj, left, right, robj;
   SVecF<R>* rpool; SVecF<R>* cpool;
};
static inline SVecF<R>& view(SVecF<R>* pool, int num, int i)
{
   __CPROVER_assert(0 <= i && i < num, "vector number in bounds");
   return pool[i];
}

template <class T> struct LPRowSetBase
{
   LPShared* d; DataArray<int> scaleExp;
   int num() const { return d->nr; }
   const T& lhs(int i) const { return d->left[i]; }
   const T& rhs(int i) const { return d->right[i]; }
   const T& obj(int i) const { return d->robj[i]; }
   T& lhs_w(int i) { return d->left[i]; }
   T& rhs_w(int i) { return d->right[i]; }
   T& obj_w(int i) { return d->robj[i]; }
};
template <class T> struct LPColSetBase
{
   LPShared* d; DataArray<int> scaleExp;
   int num() const { return d->nc; }
   const T& lower(int i) const { return d->low[i]; }
   const T& upper(int i) const { return d->up[i]; }
   const T& maxObj(int i) const { return d->obj[i]; }
   T& lower_w(int i) { return d->low[i]; }
   T& upper_w(int i) { return d->up[i]; }
   T& maxObj_w(int i) { return d->obj[i]; }
};

struct Scaler
{
   /* arbitrary bounded exponent, one per vector it is asked about (ghost array E); called on the still unscaled vector */
   int computeScaleExp(const SVecF<R>& vec, const DataArray<int>& oldScaleExp) const { g_cse_calls++; return gp_E[vec.vno]; }
};

struct LP : LPRowSetBase<R>, LPColSetBase<R>
{
   LPShared sh; Scaler* lp_scaler; SPxSense thesense; bool _isScaled;
   void bind() { LPRowSetBase<R>::d = &sh; LPColSetBase<R>::d = &sh; }
   bool isConsistent() const { return true; }
   bool isScaled() const { return _isScaled; }
   int nRows() const { return sh.nr; }
   int nCols() const { return sh.nc; }
   const R& rhs(int i) const { return sh.right[i]; }
   const R& lhs(int i) const { return sh.left[i]; }
   const R& upper(int i) const { return sh.up[i]; }
   const R& lower(int i) const { return sh.low[i]; }
   const R& maxObj(int i) const { return sh.obj[i]; }
   const R& maxRowObj(int i) const { return sh.robj[i]; }
   R& rhs_w(int i) { return sh.right[i]; }
   R& lhs_w(int i) { return sh.left[i]; }
   R& upper_w(int i) { return sh.up[i]; }
   R& lower_w(int i) { return sh.low[i]; }
   R& maxRowObj_w(int i) { return sh.robj[i]; }
   R& maxObj_w(int i) { return sh.obj[i]; }
   const SVecF<R>& rowVector(int i) const { return view(sh.rpool, sh.nr, i); }
   const SVecF<R>& colVector(int i) const { return view(sh.cpool, sh.nc, i); }
   SVecF<R>& rowVector_w(int i) { return view(sh.rpool, sh.nr, i); }
   SVecF<R>& colVector_w(int i) { return view(sh.cpool, sh.nc, i); }
};

struct H : LP
{
   bool scale; int oldOwn_, oldCross_; DataArray<int>* cnt_;
   void body()
   {
      /* the locals of the enclosing function that the region reads, with the values the earlier parts gave them */
#ifdef NEWROW
      int i, j, k, ii, idx;
      SVecF<R>* col;
      DataArray<int>& newCols = *cnt_;
      int oldRowNumber = oldOwn_;
      int oldColNumber = oldCross_;
#else
      int i, j;
      int oldColNumber = oldOwn_;
      int oldRowNumber = oldCross_;
      DataArray<int>& newRows = *cnt_;
#endif
#include ADDSLICE
   }
};

/* copy a file between the contract's parallel arrays and the cell array (straight-line) */
#define CELL_IN(k) cells[k].idx = fi[k]; cells[k].val = fv[k];
#define CELL_OUT(k) fi[k] = cells[k].idx; fv[k] = cells[k].val;
#define OWN_CELLS(S) S(0) S(1) S(2) S(3) IF_W3(S(4) S(5)) IF_CAPO3(S(2 * MATW) S(2 * MATW + 1) IF_W3(S(8)))
#define CROSS_CELLS(S) S(0) S(1) S(2) S(3) IF_W3(S(4) S(5))
static inline void own_in(nzc* cells, const int* fi, const R* fv) { OWN_CELLS(CELL_IN) }
static inline void own_out(const nzc* cells, int* fi, R* fv) { OWN_CELLS(CELL_OUT) }
static inline void cross_in(nzc* cells, const int* fi, const R* fv) { CROSS_CELLS(CELL_IN) }
static inline void cross_out(const nzc* cells, int* fi, R* fv) { CROSS_CELLS(CELL_OUT) }
#define INIT_VIEW(pool, i, mem, size) pool[i].elem0 = mem; pool[i].size0 = size; pool[i].vno = (i);

/* om/os: own file (CAPO vectors of WO cells), xm/xs: cross file (CAPX vectors of WX cells); a, b, o: dense data of the own set
 * (rows: lhs, rhs, row objective; columns: upper, lower, objective); cnt = newCols / newRows; E = exponents computeScaleExp returns */
extern "C" void w_add(int* om_i, R* om_v, int* os, int* xm_i, R* xm_v, int* xs, R* a, R* b, R* o, int* ownexp, int* crossexp,
                      int* cnt, const int* E, int nown0, int nown, int ncross, bool scale)
{
   VIN("nown0", nown0); VIN("nown", nown); VIN("ncross", ncross); VIN("scale", scale);
   VIN_ARR8("E", E, nown); VIN_ARR8("ownexp", ownexp, nown); VIN_ARR8("crossexp", crossexp, ncross); VIN_ARR8("cnt", cnt, ncross);
   VIN_ARR8("os", os, nown); VIN_ARR8("om_i", om_i, CAPO * WO); VIN_ARR8("om_v", om_v, CAPO * WO);
   H h; Scaler sc; SVecF<R> opool[CAPO], xpool[CAPX]; nzc ocells[CAPO * MATW], xcells[CAPX * MATW]; DataArray<int> cntarr;
   R unused[1];
   own_in(ocells, om_i, om_v); cross_in(xcells, xm_i, xm_v);
   INIT_VIEW(opool, 0, ocells, os) INIT_VIEW(opool, 1, ocells, os) IF_CAPO3(INIT_VIEW(opool, 2, ocells, os))
   INIT_VIEW(xpool, 0, xcells, xs) INIT_VIEW(xpool, 1, xcells, xs)
   h.bind(); h.lp_scaler = &sc; h.thesense = MAXIMIZE; h._isScaled = true;
   /* the dense vectors of the cross set are not touched by the region: zero-dimensional (any access is a bounds violation) */
   h.sh.low.val = unused; h.sh.low.dimen = 0; h.sh.up.val = unused; h.sh.up.dimen = 0; h.sh.obj.val = unused; h.sh.obj.dimen = 0;
   h.sh.left.val = unused; h.sh.left.dimen = 0; h.sh.right.val = unused; h.sh.right.dimen = 0; h.sh.robj.val = unused; h.sh.robj.dimen = 0;
#ifdef NEWROW
   h.sh.nr = nown; h.sh.nc = ncross; h.sh.rpool = opool; h.sh.cpool = xpool;
   h.sh.left.val = a; h.sh.left.dimen = nown; h.sh.right.val = b; h.sh.right.dimen = nown; h.sh.robj.val = o; h.sh.robj.dimen = nown;
   h.LPRowSetBase<R>::scaleExp.data = ownexp; h.LPRowSetBase<R>::scaleExp.thesize = nown;
   h.LPColSetBase<R>::scaleExp.data = crossexp; h.LPColSetBase<R>::scaleExp.thesize = ncross;
#else
   h.sh.nc = nown; h.sh.nr = ncross; h.sh.cpool = opool; h.sh.rpool = xpool;
   h.sh.up.val = a; h.sh.up.dimen = nown; h.sh.low.val = b; h.sh.low.dimen = nown; h.sh.obj.val = o; h.sh.obj.dimen = nown;
   h.LPColSetBase<R>::scaleExp.data = ownexp; h.LPColSetBase<R>::scaleExp.thesize = nown;
   h.LPRowSetBase<R>::scaleExp.data = crossexp; h.LPRowSetBase<R>::scaleExp.thesize = ncross;
#endif
   cntarr.data = cnt; cntarr.thesize = ncross; cntarr.themax = ncross;
   h.cnt_ = &cntarr; h.oldOwn_ = nown0; h.oldCross_ = ncross; h.scale = scale;
   gp_E = E;
   h.body();
   own_out(ocells, om_i, om_v); cross_out(xcells, xm_i, xm_v);
}
