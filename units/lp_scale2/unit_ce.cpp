/* C09: SPxLPBase<R>::changeElement(int i, int j, const R& val, bool scale) with scale == true (spxlpbase.h), real body at
 * R = ledger, together with the real bodies of SPxScaler<R>::scaleElement and ::getCoefUnscaled (spxscaler.hpp).
 *
 * Storage model = the flat-matrix host of unit lp_mirror (C06) at the ledger type: each matrix copy ("file") is a flat array of
 * Nonzero cells {val, idx}; vector v owns the MATW cells [v*MATW, v*MATW+MATW) and size[v] of them are in use.  The sparse-vector
 * operations the bodies use - pos, remove(n), index, value, operator[] - are the REAL texts of svectorbase.h (sliced; add(i, v) is a
 * conformance-checked model, see below);
 * pos() sits in a zero-argument host so that its loop carries an inductive loop contract.  size()/set_size()/max() are stubs.
 * LPRowSetBase / LPColSetBase: two-base layout of README point 16 (identical layout {LPShared* d; DataArray<int> scaleExp},
 * methods through d only; scaleExp only accessed as a qualified data member). */
#include "verif.h"
#include "ledger.h"
#define DATAARRAY_READ_INVARIANT(v) __CPROVER_assume(-EXP_MAX <= (v) && (v) <= EXP_MAX)
#include "containers.h"
#ifndef MATW
#define MATW 3
#endif
#ifndef CAP
#define CAP 3
#endif
#if MATW != 3 || (CAP != 2 && CAP != 3)
#error "the straight-line copy code below is written out for MATW == 3, CAP == 2 or 3"
#endif
#if CAP > 2
#define IF_CAP3(x) x
#else
#define IF_CAP3(x)
#endif

extern "C" {
struct nzc { R val; int idx; int pad_; };
extern int g_add_r, g_add_c, g_nz;
extern struct nzc* gp_pe; extern int g_pos_i, g_pos_n;
}

#define SVectorBase SVecF
template <class T> struct SVecF
{
   /* stub data: the file's cell array and size array (the same two base pointers in every vector of a file) and the vector's number */
   nzc* elem0; int* size0; int vno;
   int memsize;
#define m_elem (elem0 + vno * MATW)
   int size() const { return size0[vno]; }
   int max() const { return memsize; }
   void set_size(int s) { size0[vno] = s; }
   int index(int n) const
   {
      __CPROVER_assert(0 <= n && n < size(), "SVector position in bounds");
#include "SV_index.inc"
   }
   int& index(int n)
   {
      __CPROVER_assert(0 <= n && n < size(), "SVector position in bounds");
#include "SV_index_w.inc"
   }
   const T& value(int n) const
   {
      __CPROVER_assert(0 <= n && n < size(), "SVector position in bounds");
#include "SV_value.inc"
   }
   T& value(int n)
   {
      __CPROVER_assert(0 <= n && n < size(), "SVector position in bounds");
#include "SV_value_w.inc"
   }
   /* pos(i): the real body, hosted in a zero-argument member so that its loop can carry a loop contract (README point 1) */
   int pos(int i) const { g_pos_i = i; g_pos_n = size(); gp_pe = m_elem; return pos0(); }
   int pos0() const
   {
      const int i = g_pos_i;
#include "SV_pos.inc"
   }
   T operator[](int i) const
   {
#include "SV_subscript.inc"
   }
   void remove(int n)
   {
      __CPROVER_assert(0 <= n && n < size(), "SVector::remove position in bounds");
#include "SV_remove1.inc"
   }
   /* MODEL of add(int i, const R& v): the real body appends (i, v) `if(v != 0.0)` (conformance-checked); the ledger value 0 is a
      NONZERO number that has been shifted by 0 binary orders, so the literal-zero test must not be applied to it: a power-of-two
      multiple of a nonzero is nonzero (ledger assumption: no underflow).  Real add() at a numeric type: unit lp_mirror (C06). */
   void add(int i, const T& v)
   {
      __CPROVER_assert(size() < max(), "SVector::add within max()");
      int n = size(); m_elem[n].idx = i; m_elem[n].val = v; set_size(n + 1);
   }
};

struct LPShared
{
   nzc* rmem; int* rsize; int nr;      /* row file, number of rows */
   nzc* cmem; int* csize; int nc;      /* column file, number of columns */
   SVecF<R>* rpool; SVecF<R>* cpool;   /* the SVector objects, one per vector number (as in the real SVSet) */
};

static inline void init_views(SVecF<R>* pool, nzc* mem, int* size)
{
#define INIT_VIEW(i) pool[i].elem0 = mem; pool[i].size0 = size; pool[i].vno = (i); pool[i].memsize = MATW;
   INIT_VIEW(0) INIT_VIEW(1) IF_CAP3(INIT_VIEW(2))
}
static inline SVecF<R>& view(SVecF<R>* pool, int num, int i)
{
   __CPROVER_assert(0 <= i && i < num, "vector number in bounds");
   return pool[i];
}

/* real add2: SVSetBase<R>::add2(vector_w(i), n, idx, val) = xtend(svec, size+n) [model: fixed capacity MATW, room asserted by add]
 * + svec.add(n, idx, val), which for n == 1 is add(idx[0], val[0]) (conformance-checked) */
static inline void add2_one(SVecF<R>& v, int n, const int idx[], const R val[])
{
   __CPROVER_assert(n == 1, "add2 model: one nonzero at a time");
   v.add(idx[0], val[0]);
}

template <class T> struct LPRowSetBase
{
   LPShared* d; DataArray<int> scaleExp;
   void add2(int i, int n, const int idx[], const T val[]) { g_add_r++; add2_one(view(d->rpool, d->nr, i), n, idx, val); }
};
template <class T> struct LPColSetBase
{
   LPShared* d; DataArray<int> scaleExp;
   void add2(int i, int n, const int idx[], const T val[]) { g_add_c++; add2_one(view(d->cpool, d->nc, i), n, idx, val); }
};

/* the ledger does not represent magnitudes: "val counts as nonzero" is an arbitrary boolean, fixed per call (ghost g_nz) */
template <class A, class B> inline bool isNotZero(A a, B eps) { return g_nz != 0; }

struct Tolerances { R epsilon() const { return 0; } };
struct LP;
struct Scaler
{
   R scaleElement(const LP& lp, int row, int col, R val) const;
   R getCoefUnscaled(const LP& lp, int row, int col) const;
};

struct LP : LPRowSetBase<R>, LPColSetBase<R>
{
   LPShared sh; bool _isScaled; Scaler* lp_scaler; Tolerances tol;
   void bind() { LPRowSetBase<R>::d = &sh; LPColSetBase<R>::d = &sh; }
   const Tolerances* tolerances() const { return (Tolerances*)&tol; }
   bool isConsistent() const { return true; }
   bool isScaled() const { return _isScaled; }
   int nRows() const { return sh.nr; }
   int nCols() const { return sh.nc; }
   const SVecF<R>& rowVector(int i) const { return view(sh.rpool, sh.nr, i); }
   const SVecF<R>& colVector(int i) const { return view(sh.cpool, sh.nc, i); }
   SVecF<R>& rowVector_w(int i) { return view(sh.rpool, sh.nr, i); }
   SVecF<R>& colVector_w(int i) { return view(sh.cpool, sh.nc, i); }
};
R Scaler::scaleElement(const LP& lp, int row, int col, R val) const
{
#include "scaleElement.inc"
}
R Scaler::getCoefUnscaled(const LP& lp, int row, int col) const
{
#include "getCoefUnscaled.inc"
}

struct H : LP
{
   int i_, j_; R val_; bool scale_;
   void body()
   {
      int i = i_; int j = j_; const R& val = val_; bool scale = scale_;
#include "changeElement.inc"
   }
};

/* copy a file between the contract's parallel arrays and the cell array (straight-line, CAP*MATW cells) */
#define CELL_IN(k) cells[k].idx = fi[k]; cells[k].val = fv[k];
#define CELL_OUT(k) fi[k] = cells[k].idx; fv[k] = cells[k].val;
#define ALL9(S) S(0) S(1) S(2) S(3) S(4) S(5) IF_CAP3(S(6) S(7) S(8))
static inline void file_in(nzc* cells, const int* fi, const R* fv) { ALL9(CELL_IN) }
static inline void file_out(const nzc* cells, int* fi, R* fv) { ALL9(CELL_OUT) }

extern "C" void w_ce(int* rm_i, R* rm_v, int* rs, int* cm_i, R* cm_v, int* cs, int* rowexp, int* colexp, int nr, int nc,
                     int i, int j, R val, bool scale, R* out)
{
   VIN("nr", nr); VIN("nc", nc); VIN("i", i); VIN("j", j); VIN("val", val); VIN("nz", g_nz); VIN("scale", scale);
   VIN_ARR8("rowexp", rowexp, nr); VIN_ARR8("colexp", colexp, nc);
   H h; Scaler sc; SVecF<R> rpool[CAP], cpool[CAP]; nzc rcells[CAP * MATW], ccells[CAP * MATW];
   file_in(rcells, rm_i, rm_v); file_in(ccells, cm_i, cm_v);
   h.bind(); h._isScaled = true; h.lp_scaler = &sc;
   h.sh.rmem = rcells; h.sh.rsize = rs; h.sh.nr = nr; h.sh.cmem = ccells; h.sh.csize = cs; h.sh.nc = nc;
   h.sh.rpool = rpool; h.sh.cpool = cpool;
   init_views(rpool, rcells, rs); init_views(cpool, ccells, cs);
   h.LPRowSetBase<R>::scaleExp.data = rowexp; h.LPRowSetBase<R>::scaleExp.thesize = nr;
   h.LPColSetBase<R>::scaleExp.data = colexp; h.LPColSetBase<R>::scaleExp.thesize = nc;
   h.i_ = i; h.j_ = j; h.val_ = val; h.scale_ = scale;
   h.body();
   /* round trip: the REAL unscaled getter on the changed LP */
#ifdef WITH_GETTER
   if(i >= 0 && j >= 0)
      *out = sc.getCoefUnscaled(h, i, j);
#endif
   file_out(rcells, rm_i, rm_v); file_out(ccells, cm_i, cm_v);
}
