/* C09 clause "data added ... while persistent scaling is active is stored consistently with the existing scale factors" for the
 * scaling region of SPxLPBase<R>::doAddRows / doAddCols (set variants), scale == true, R = ledger.  Derived from the property:
 * every NEW own vector v (oldNumber <= v < num()) gets its OWN exponent E_v (what computeScaleExp returned for it), recorded at
 * scaleExp[v] - v the new vector's number -; its sides/bounds and objective are shifted by E_v (infinite ones untouched); each of
 * its nonzeros (k, x) is stored as x + E_v + crossExp[k] in the own copy AND in a cell of the reserved tail of cross vector k (with
 * index v) - so unscaling with the recorded exponents returns exactly what was entered; nothing that existed before is touched:
 * exponents, sides and nonzeros of the old own vectors, the old cells of the cross vectors, the cross exponents (not assignable).
 * Conversely every reserved cell of a cross vector is filled with a nonzero of a new own vector (no cell left uninitialised).
 * "For all" = ghosts: new vector g_v / position g_p, old vector g_h / position g_hp, cross vector g_x with old cell g_xo and
 * reserved cell g_xn.  The state the earlier parts of the function leave behind (S1-S3 in unit_add.cpp) is the precondition. */
#include "matrix_spec.h"
#if (CAPO != 2 && CAPO != 3) || (MATW != 2 && MATW != 3) || CAPX != 2
#error "written out for CAPO == 2 or 3, CAPX == 2, MATW == 2 or 3 cells per vector (both files)"
#endif
#define WO MATW
#define WX MATW
#if MATW > 2
#define IF_W3(x) x
#else
#define IF_W3(x)
#endif
/* terms for the third own vector / fourth cross cell exist only when allocated */
#if CAPO > 2
#define IF_CAPO3(x) x
#else
#define IF_CAPO3(x)
#endif
/* SCOPE: which part of 0 <= nown0 <= nown <= CAPO this instance covers (the loop over the new vectors runs downwards from num()-1
 * in doAddRows and upwards from oldNumber in doAddCols: fixing that end keeps the vector numbers concrete in the unwound loop) */
#ifndef SCOPE
#define SCOPE 1
#endif
const int* gp_E; int g_cse_calls;
int g_v, g_p, g_k, g_h, g_hp, g_hidx, g_hexp, g_x, g_xo, g_xoidx, g_xn, g_cnt_k, g_cnt_x; R g_val, g_expect, g_hval, g_xoval, g_a, g_b, g_o, g_ha, g_hb, g_ho;

#define ISNEW(v) (nown0 <= (v) && (v) < nown)
/* S3: number of nonzeros with cross index k in the new own vectors (written out cell by cell) */
#define OCC(v, p, k) ((ISNEW(v) && (p) < os[v] && IDXAT(om, WO, v, p) == (k)) ? 1 : 0)
#define OCCV(v, k) (OCC(v, 0, k) + OCC(v, 1, k) IF_W3(+ OCC(v, 2, k)))
#define COUNT(k) (OCCV(0, k) + OCCV(1, k) IF_CAPO3(+ OCCV(2, k)))
#define S1_AT(v) (!ISNEW(v) || (SIZEOK(WO, os, v) && INRANGE(om, WO, os, v, ncross) && EOK(E[v])))
#define S3_AT(k) (!((k) < ncross) || (cnt[k] == COUNT(k) && cnt[k] <= xs[k] && xs[k] <= WX))
/* own dense data: the first bound/side may be infinite in one direction, the second in the other */
#ifdef NEWROW
#define A_INF (-INF)
#define B_INF (INF)
#define SHIFT_AB(x, e) ((x) + (e))      /* sides are multiplied by the row factor */
#else
#define A_INF (INF)
#define B_INF (-INF)
#define SHIFT_AB(x, e) ((x) - (e))      /* bounds are divided by the column factor */
#endif
/* reserved cell s of cross vector g_k holds (g_v, g_expect) */
#define NEWHIT(s) (xs[g_k] - g_cnt_k <= (s) && (s) < xs[g_k] && IDXAT(xm, WX, g_k, s) == g_v && VALAT(xm, WX, g_k, s) == g_expect)
/* own vector r has the nonzero (g_x, value of the reserved cell g_xn of cross vector g_x) at position p */
#define BACKHIT(r, p) ((p) < os[r] && IDXAT(om, WO, r, p) == g_x && VALAT(om, WO, r, p) == VALAT(xm, WX, g_x, g_xn))

void w_add(int* om_i, R* om_v, int* os, int* xm_i, R* xm_v, int* xs, R* a, R* b, R* o, int* ownexp, int* crossexp,
           int* cnt, const int* E, int nown0, int nown, int ncross, _Bool scale)
__CPROVER_requires(__CPROVER_is_fresh(om_i, CAPO * WO * sizeof(int)) && __CPROVER_is_fresh(om_v, CAPO * WO * sizeof(R)) && __CPROVER_is_fresh(os, CAPO * sizeof(int)))
__CPROVER_requires(__CPROVER_is_fresh(xm_i, CAPX * WX * sizeof(int)) && __CPROVER_is_fresh(xm_v, CAPX * WX * sizeof(R)) && __CPROVER_is_fresh(xs, CAPX * sizeof(int)))
__CPROVER_requires(__CPROVER_is_fresh(a, CAPO * sizeof(R)) && __CPROVER_is_fresh(b, CAPO * sizeof(R)) && __CPROVER_is_fresh(o, CAPO * sizeof(R)))
__CPROVER_requires(__CPROVER_is_fresh(ownexp, CAPO * sizeof(int)) && __CPROVER_is_fresh(crossexp, CAPX * sizeof(int)))
__CPROVER_requires(__CPROVER_is_fresh(cnt, CAPX * sizeof(int)) && __CPROVER_is_fresh(E, CAPO * sizeof(int)))
__CPROVER_requires(0 <= nown0 && nown0 <= nown && nown <= CAPO && (SCOPE) && 0 <= ncross && ncross <= CAPX && scale && g_cse_calls == 0)
/* S1, S2 at every new own vector; S3 at every cross vector */
__CPROVER_requires(S1_AT(0) && S1_AT(1) IF_CAPO3(&& S1_AT(2)))
__CPROVER_requires(S3_AT(0) && S3_AT(1))
/* ghosts are optional: each clause is stated for whichever ghost happens to be valid (so nown0 == 0, empty vectors etc. are covered) */
#define V_NEW (ISNEW(g_v))                                          /* g_v: a new own vector */
#define V_NZ (V_NEW && 0 <= g_p && g_p < os[g_v])                   /* g_p: a nonzero of it */
#define V_OLD (0 <= g_h && g_h < nown0 && 0 <= g_hp && g_hp < WO)   /* g_h: an old own vector, g_hp any of its cells */
#define V_X (0 <= g_x && g_x < ncross)                              /* g_x: a cross vector */
#define V_XO (V_X && 0 <= g_xo && g_xo < xs[g_x] - g_cnt_x)         /* g_xo: one of its old cells */
#define V_XN (V_X && xs[g_x] - g_cnt_x <= g_xn && g_xn < xs[g_x])   /* g_xn: one of its reserved cells */
__CPROVER_requires(!V_NEW || (g_a == a[g_v] && g_b == b[g_v] && g_o == o[g_v] && (FINITE(g_a) || g_a == A_INF) && (FINITE(g_b) || g_b == B_INF) && FINITE(g_o)))
__CPROVER_requires(!V_NZ || (g_k == IDXAT(om, WO, g_v, g_p) && g_val == VALAT(om, WO, g_v, g_p) && FINITE(g_val)))
__CPROVER_requires(!V_NZ || (EOK(crossexp[g_k]) && g_expect == g_val + (E[g_v] + crossexp[g_k]) && g_cnt_k == cnt[g_k]))
__CPROVER_requires(!V_OLD || (g_hexp == ownexp[g_h] && g_ha == a[g_h] && g_hb == b[g_h] && g_ho == o[g_h] && g_hidx == IDXAT(om, WO, g_h, g_hp) && g_hval == VALAT(om, WO, g_h, g_hp)))
__CPROVER_requires(!V_X || g_cnt_x == cnt[g_x])
__CPROVER_requires(!V_XO || (g_xoidx == IDXAT(xm, WX, g_x, g_xo) && g_xoval == VALAT(xm, WX, g_x, g_xo)))
__CPROVER_assigns(gp_E, g_cse_calls, __CPROVER_object_whole(om_i), __CPROVER_object_whole(om_v), __CPROVER_object_whole(xm_i), __CPROVER_object_whole(xm_v))
__CPROVER_assigns(__CPROVER_object_whole(a), __CPROVER_object_whole(b), __CPROVER_object_whole(o), __CPROVER_object_whole(ownexp), __CPROVER_object_whole(cnt))
#ifndef PART_FRAME
/* the new vector's own exponent, recorded under the new vector's number; one exponent computed per new vector */
__CPROVER_ensures(g_cse_calls == nown - nown0)
__CPROVER_ensures(!V_NEW || ownexp[g_v] == E[g_v])
/* its sides/bounds and objective */
__CPROVER_ensures(!V_NEW || (a[g_v] == (FINITE(g_a) ? SHIFT_AB(g_a, E[g_v]) : g_a) && b[g_v] == (FINITE(g_b) ? SHIFT_AB(g_b, E[g_v]) : g_b) && o[g_v] == g_o + E[g_v]))
/* its nonzero: own copy, and a reserved cell of cross vector g_k */
__CPROVER_ensures(!V_NZ || (IDXAT(om, WO, g_v, g_p) == g_k && VALAT(om, WO, g_v, g_p) == g_expect))
__CPROVER_ensures(!V_NZ || (NEWHIT(0) || NEWHIT(1) IF_W3(|| NEWHIT(2))))
#endif
#ifndef PART_SCALE
/* nothing old is touched */
__CPROVER_ensures(!V_OLD || (ownexp[g_h] == g_hexp && a[g_h] == g_ha && b[g_h] == g_hb && o[g_h] == g_ho))
__CPROVER_ensures(!V_OLD || (IDXAT(om, WO, g_h, g_hp) == g_hidx && VALAT(om, WO, g_h, g_hp) == g_hval))
__CPROVER_ensures(!V_XO || (IDXAT(xm, WX, g_x, g_xo) == g_xoidx && VALAT(xm, WX, g_x, g_xo) == g_xoval))
/* every reserved cell is used up by a nonzero of a new own vector */
__CPROVER_ensures(!V_X || cnt[g_x] == 0)
__CPROVER_ensures(!V_XN || (ISNEW(IDXAT(xm, WX, g_x, g_xn)) && (BACKHIT(IDXAT(xm, WX, g_x, g_xn), 0) || BACKHIT(IDXAT(xm, WX, g_x, g_xn), 1) IF_W3(|| BACKHIT(IDXAT(xm, WX, g_x, g_xn), 2)))))
#endif
;

void h_add(void)
{
   int *om_i, *os, *xm_i, *xs, *ownexp, *crossexp, *cnt; const int* E; R *om_v, *xm_v, *a, *b, *o; int nown0, nown, ncross; _Bool scale;
   g_cse_calls = nondet_int();
   g_v = nondet_int(); g_p = nondet_int(); g_k = nondet_int(); g_h = nondet_int(); g_hp = nondet_int(); g_hidx = nondet_int(); g_hexp = nondet_int();
   g_x = nondet_int(); g_xo = nondet_int(); g_xoidx = nondet_int(); g_xn = nondet_int(); g_cnt_k = nondet_int(); g_cnt_x = nondet_int();
   g_val = nondet_ll(); g_expect = nondet_ll(); g_hval = nondet_ll(); g_xoval = nondet_ll();
   g_a = nondet_ll(); g_b = nondet_ll(); g_o = nondet_ll(); g_ha = nondet_ll(); g_hb = nondet_ll(); g_ho = nondet_ll();
   w_add(om_i, om_v, os, xm_i, xm_v, xs, a, b, o, ownexp, crossexp, cnt, E, nown0, nown, ncross, scale);
   CANARY();
}
