"""Generates unit.json of unit lp_scale2.  Run: python3 gen_unit_json.py (rewrites unit.json next to it)."""
import json
SV = "src/soplex/svectorbase.h"
LPB = "src/soplex/spxlpbase.h"
SCL = "src/soplex/spxscaler.hpp"
sv_slices = [
 {"as":"SV_index.inc","file":SV,"sig":"\\n\\s*int\\s+index\\s*\\(\\s*int\\s+n\\s*\\)\\s*const"},
 {"as":"SV_index_w.inc","file":SV,"sig":"\\n\\s*int&\\s+index\\s*\\(\\s*int\\s+n\\s*\\)"},
 {"as":"SV_value.inc","file":SV,"sig":"const\\s+R&\\s+value\\s*\\(\\s*int\\s+n\\s*\\)\\s*const"},
 {"as":"SV_value_w.inc","file":SV,"sig":"\\n\\s*R&\\s+value\\s*\\(\\s*int\\s+n\\s*\\)"},
]
ce_slices = sv_slices + [
 {"as":"SV_pos.inc","file":SV,"sig":"int\\s+pos\\s*\\(\\s*int\\s+i\\s*\\)\\s*const"},
 {"as":"SV_subscript.inc","file":SV,"sig":"\\n\\s*R\\s+operator\\[\\]\\s*\\(\\s*int\\s+i\\s*\\)\\s*const"},
 {"as":"SV_remove1.inc","file":SV,"sig":"void\\s+remove\\s*\\(\\s*int\\s+n\\s*\\)"},
 {"as":"scaleElement.inc","file":SCL,"sig":"R\\s+SPxScaler<R>::scaleElement\\s*\\(\\s*const\\s+SPxLPBase<R>&\\s*lp\\s*,\\s*int\\s+row\\s*,\\s*int\\s+col\\s*,\\s*R\\s+val\\s*\\)\\s*const"},
 {"as":"getCoefUnscaled.inc","file":SCL,"sig":"R\\s+SPxScaler<R>::getCoefUnscaled\\s*\\(\\s*const\\s+SPxLPBase<R>&\\s*lp\\s*,\\s*int\\s+row\\s*,\\s*int\\s+col\\s*\\)\\s*const"},
 {"as":"changeElement.inc","file":LPB,"sig":"virtual\\s+void\\s+changeElement\\s*\\(\\s*int\\s+i\\s*,\\s*int\\s+j\\s*,\\s*const\\s+R&\\s*val\\s*,\\s*bool\\s+scale\\s*=\\s*false\\s*\\)"},
]
POS_LOOP = {"function":"SVecF<signed_long_long_int>::pos0\\(\\$constthis\\)","loop":0,"locals":["p","n"],
  "invariants":["0<=p && p<=n && n==g_pos_n", "(p>0 ? gp_pe[0].idx!=g_pos_i : 1) && (p>1 ? gp_pe[1].idx!=g_pos_i : 1) && (p>2 ? gp_pe[2].idx!=g_pos_i : 1)"],
  "assigns":["p"],"decreases":"n-p"}
CONF_ADD = [
 {"file":SV,"regex":"R val;[^;]*?\\n\\s*int idx;","why":"struct nzc {val, idx} replicates Nonzero<R>"},
 {"file":SV,"regex":"int\\s+size\\(\\)\\s*const\\s*\\{[^}]*return\\s+memused;","why":"size() stub: the number of used cells"},
 {"file":SV,"regex":"void\\s+set_size\\(int\\s+s\\)\\s*\\{[^}]*memused\\s*=\\s*s;","why":"set_size() stub"},
 {"file":SV,"regex":"void\\s+add\\(int\\s+i,\\s*const\\s+R&\\s*v\\)\\s*\\{(?:\\s*assert\\([^;]*;)*\\s*if\\(v\\s*!=\\s*0\\.0\\)\\s*\\{\\s*int\\s+n\\s*=\\s*size\\(\\);\\s*m_elem\\[n\\]\\.idx\\s*=\\s*i;\\s*m_elem\\[n\\]\\.val\\s*=\\s*v;\\s*set_size\\(n\\s*\\+\\s*1\\);","why":"add(i, v) model: appends (i, v) unless v is the literal zero"},
 {"file":SV,"regex":"void\\s+add\\(int\\s+n,\\s*const\\s+int\\s+i\\[\\],\\s*const\\s+R\\s+v\\[\\]\\).*?if\\(\\*v\\s*!=\\s*0\\.0\\)\\s*\\{\\s*assert\\(e\\s*!=\\s*nullptr\\);\\s*e->idx\\s*=\\s*\\*i;\\s*e->val\\s*=\\s*\\*v;\\s*e\\+\\+;\\s*\\+\\+newnnz;","why":"n-ary SVector::add stores (idx, val) of every nonzero value exactly as add(int, const R&) does (model: n == 1)"},
 {"file":"src/soplex/svsetbase.h","regex":"void\\s+add2\\(SVectorBase<R>&\\s*svec,\\s*int\\s+n,\\s*const\\s+int\\s+idx\\[\\],\\s*const\\s+R\\s+val\\[\\]\\)\\s*\\{\\s*xtend\\(svec,\\s*svec\\.size\\(\\)\\s*\\+\\s*n\\);\\s*svec\\.add\\(n,\\s*idx,\\s*val\\);","why":"add2 model = make room + SVector::add(n, idx, val)"},
 {"file":"src/soplex/lprowsetbase.h","regex":"void\\s+add2\\(int\\s+i,\\s*int\\s+n,\\s*const\\s+int\\s+idx\\[\\],\\s*const\\s+R\\s+val\\[\\]\\)\\s*\\{\\s*SVSetBase<R>::add2\\(rowVector_w\\(i\\),\\s*n,\\s*idx,\\s*val\\);","why":"LPRowSetBase::add2 forwards to SVSetBase::add2 on row i"},
 {"file":"src/soplex/lpcolsetbase.h","regex":"void\\s+add2\\(int\\s+i,\\s*int\\s+n,\\s*const\\s+int\\s+idx\\[\\],\\s*const\\s+R\\s+val\\[\\]\\)\\s*\\{\\s*SVSetBase<R>::add2\\(colVector_w\\(i\\),\\s*n,\\s*idx,\\s*val\\);","why":"LPColSetBase::add2 forwards to SVSetBase::add2 on column i"},
 {"file":LPB,"regex":"SVectorBase<R>&\\s*colVector_w\\(int\\s+i\\)\\s*\\{\\s*return\\s+LPColSetBase<R>::colVector_w\\(i\\);","why":"SPxLPBase forwarders are one-liners"},
]
ce = {
 "name":"changeElement_scaled",
 "function":"SPxLPBase<R>::changeElement(int i, int j, const R& val, bool scale)  [scale == true] + SPxScaler<R>::scaleElement, ::getCoefUnscaled",
 "cpp":["unit_ce.cpp"], "c":["contract_ce.c"], "harness":"h_ce", "enforce":"w_ce",
 "defines":{"CAP":"2","MATW":"3"},
 "slices":ce_slices, "unwind_loops":[{"function":"SVecF<signed_long_long_int>::pos0\\(\\$constthis\\)","loop":0}], "unwind":4, "conformance":CONF_ADD,
 "trusted":[
  "storage model (as unit lp_mirror, C06): each matrix copy is a flat array of Nonzero cells, vector v = cells [v*3, v*3+3), size[v] in use; at most CAP = 3 rows and 3 columns",
  "SVectorBase: pos, remove(n), index, value, operator[] are the REAL bodies (sliced); pos() hosted in a zero-argument member, loop contract written out for 3 cells; size()/set_size()/max() stubs",
  "SVectorBase::add(i, v) / add2(i, 1, idx, val) MODEL: appends (idx[0], val[0]) to a vector with room (conformance-checked); the real add() skips v == 0.0 - the ledger value 0 is a nonzero number shifted by 0 orders, so that test is not applied (ledger assumption: a power-of-two multiple of a nonzero does not underflow to zero); real add() at a numeric type: lp_mirror (C06); reallocation by xtend not modelled (room is a precondition)",
  "isNotZero(val, epsilon) abstracted to an arbitrary boolean fixed per call (the ledger does not represent magnitudes); real isNotZero with the same three branches: lp_mirror (C06)",
  "representation invariant of the LP (legal sizes, no index twice in a vector, copies mirrored at the cell) is a PRECONDITION at row i / column j",
  "assumed |scale exponent| <= 2^20 on every read of an exponent array",
 ],
 "min_obligations":150, "tier":"quick",
 "mutants":[
  {"name":"seed_add2_unscaled","slice":"changeElement.inc","regex":True,
   "find":"LPRowSetBase<R>::add2\\(i, 1, &j, &newVal\\);(\\s*)LPColSetBase<R>::add2\\(j, 1, &i, &newVal\\);",
   "replace":"LPRowSetBase<R>::add2(i, 1, &j, &val);\\1LPColSetBase<R>::add2(j, 1, &i, &val);"},
  {"name":"overwrite_col_copy_unscaled","slice":"changeElement.inc","find":"col.value(col.pos(i)) = newVal;","replace":"col.value(col.pos(i)) = val;"},
  {"name":"add2_row_copy_unscaled","slice":"changeElement.inc","find":"LPRowSetBase<R>::add2(i, 1, &j, &newVal);","replace":"LPRowSetBase<R>::add2(i, 1, &j, &val);"},
  {"name":"scale_transposed","slice":"changeElement.inc","find":"lp_scaler->scaleElement(*this, i, j, val)","replace":"lp_scaler->scaleElement(*this, j, i, val)"},
  {"name":"scaleElement_minus","slice":"scaleElement.inc","find":"colscaleExp[col] + rowscaleExp[row]","replace":"colscaleExp[col] - rowscaleExp[row]"},
 ]}
import copy
rt = copy.deepcopy(ce)
rt["name"] = "changeElement_roundtrip"
rt["defines"] = {"CAP":"2","MATW":"3","WITH_GETTER":"","ONLY_GETTER":""}
rt["mutants"] = [m for m in ce["mutants"] if m["name"] in ("seed_add2_unscaled","overwrite_col_copy_unscaled")] + [
  {"name":"getter_forgets_row_exp","slice":"getCoefUnscaled.inc","find":"- rowscaleExp[row] - colscaleExp[col]","replace":"- colscaleExp[col]"}]
unit = {
 "property":["C09"],
 "desc":"LP-level scaling, second part: changeElement(.., scale=true) round trip over real bodies; doAddRows/doAddCols (set variants) scaling region",
 "rmode":"ledger",
 "flags":["--bounds-check","--pointer-check","--signed-overflow-check"],
 "timeout_s":300,
 "trusted":["R = ledger (spxLdexp(x,e)=x+e; infinity not preserved by ldexp, as SoPlex's 1e100)","two-base stub layout of README point 16; assert() compiled out (NDEBUG)"],
 "instances":[ce, rt],
}
import os
try:
    from gen_add import add_instances
    unit["instances"] += add_instances()
except ImportError:
    pass
json.dump(unit, open(os.path.join(os.path.dirname(os.path.abspath(__file__)),"unit.json"),"w"), indent=1)
