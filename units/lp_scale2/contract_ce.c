/* C09 clause "data ... changed while persistent scaling is active is stored consistently with the existing scale factors" /
 * "the LP seen through the user-level accessors is identical whether or not scaling is active", for
 * SPxLPBase<R>::changeElement(int i, int j, const R& val, bool scale) with scale == true, R = ledger.
 * Derived from the property, not from the code:
 *   (round trip)  after the call the REAL unscaled getter SPxScaler::getCoefUnscaled(lp, i, j) returns exactly val;
 *   (both copies) row i has an entry j and column j has an entry i, both with value val shifted by rowExp[i] + colExp[j] - the
 *                 exponent applyScaling uses for that cell (unit scaler_mat) - whichever branch is taken (overwrite an existing
 *                 nonzero / add2 a new one); a value that counts as zero removes the entry from both copies;
 *   (frame)       every other cell of both copies and every scale exponent is unchanged (the exponent arrays are not assignable).
 * Precondition: representation invariant of the LP at row i and column j (legal sizes, no index twice, mirrored at cell (i, j));
 * room for one more nonzero in both vectors when the entry is new (fixed capacity MATW; the real SVSet grows, C19). */
#include "matrix_spec.h"
#ifndef CAP
#define CAP 3
#endif
#define W 3
int g_add_r, g_add_c, g_nz; struct nzc* gp_pe; int g_pos_i, g_pos_n;
int g_i, g_c, g_rh, g_ch, g_had; R g_rv, g_cv, g_expect;
#define FILE_CELLS (CAP * W)
#define ACTIVE (i >= 0 && j >= 0)

void w_ce(int* rm_i, R* rm_v, int* rs, int* cm_i, R* cm_v, int* cs, int* rowexp, int* colexp, int nr, int nc,
          int i, int j, R val, _Bool scale, R* out)
__CPROVER_requires(__CPROVER_is_fresh(rm_i, FILE_CELLS * sizeof(int)) && __CPROVER_is_fresh(rm_v, FILE_CELLS * sizeof(R)) && __CPROVER_is_fresh(rs, CAP * sizeof(int)))
__CPROVER_requires(__CPROVER_is_fresh(cm_i, FILE_CELLS * sizeof(int)) && __CPROVER_is_fresh(cm_v, FILE_CELLS * sizeof(R)) && __CPROVER_is_fresh(cs, CAP * sizeof(int)))
__CPROVER_requires(__CPROVER_is_fresh(rowexp, CAP * sizeof(int)) && __CPROVER_is_fresh(colexp, CAP * sizeof(int)) && __CPROVER_is_fresh(out, sizeof(R)))
__CPROVER_requires(1 <= nr && nr <= CAP && 1 <= nc && nc <= CAP && i < nr && j < nc && scale)
__CPROVER_requires(FINITE(val) && (g_nz == 0 || g_nz == 1) && g_add_r == 0 && g_add_c == 0)
__CPROVER_requires(!ACTIVE || (EOK(rowexp[i]) && EOK(colexp[j]) && g_expect == val + rowexp[i] + colexp[j]))
/* representation invariant at row i / column j, and room for a new entry */
__CPROVER_requires(!ACTIVE || (SIZEOK(W, rs, i) && SIZEOK(W, cs, j) && NODUP(rm, W, rs, i) && NODUP(cm, W, cs, j) && MIRROR(rm, W, rs, i, cm, W, cs, j)))
__CPROVER_requires(!ACTIVE || HAS(rm, W, rs, i, j) || (rs[i] < W && cs[j] < W))
__CPROVER_requires(g_had == (ACTIVE && HAS(rm, W, rs, i, j)))
/* ghost cell: what each file says there before the call */
__CPROVER_requires(0 <= g_i && g_i < nr && 0 <= g_c && g_c < nc && SIZEOK(W, rs, g_i) && SIZEOK(W, cs, g_c))
__CPROVER_requires(g_rh == HAS(rm, W, rs, g_i, g_c) && g_rv == VALOF(rm, W, rs, g_i, g_c) && g_ch == HAS(cm, W, cs, g_c, g_i) && g_cv == VALOF(cm, W, cs, g_c, g_i))
__CPROVER_assigns(g_add_r, g_add_c, g_pos_i, g_pos_n, gp_pe, *out, __CPROVER_object_whole(rm_i), __CPROVER_object_whole(rm_v),
                  __CPROVER_object_whole(rs), __CPROVER_object_whole(cm_i), __CPROVER_object_whole(cm_v), __CPROVER_object_whole(cs))
/* round trip through the real unscaled getter */
#ifdef WITH_GETTER
__CPROVER_ensures(!(ACTIVE && g_nz) || *out == val)
#endif
#ifndef ONLY_GETTER
/* the changed cell, in both copies, scaled by the row's plus the column's exponent */
__CPROVER_ensures(!ACTIVE || (HAS(rm, W, rs, i, j) == g_nz && HAS(cm, W, cs, j, i) == g_nz))
__CPROVER_ensures(!(ACTIVE && g_nz) || (VALOF(rm, W, rs, i, j) == g_expect && VALOF(cm, W, cs, j, i) == g_expect))
__CPROVER_ensures(!ACTIVE || (SIZEOK(W, rs, i) && SIZEOK(W, cs, j) && NODUP(rm, W, rs, i) && NODUP(cm, W, cs, j)))
/* a new entry is handed to BOTH sets (one add2 each), an existing one to neither */
__CPROVER_ensures(g_add_r == g_add_c && g_add_r == ((ACTIVE && g_nz && !g_had) ? 1 : 0))
/* every other cell: unchanged in both files */
__CPROVER_ensures((ACTIVE && g_i == i && g_c == j) || (HAS(rm, W, rs, g_i, g_c) == g_rh && (!g_rh || VALOF(rm, W, rs, g_i, g_c) == g_rv)))
__CPROVER_ensures((ACTIVE && g_i == i && g_c == j) || (HAS(cm, W, cs, g_c, g_i) == g_ch && (!g_ch || VALOF(cm, W, cs, g_c, g_i) == g_cv)))
#endif
;

void h_ce(void)
{
   int *rm_i, *rs, *cm_i, *cs, *rowexp, *colexp; R *rm_v, *cm_v, *out; int nr, nc, i, j; R val; _Bool scale;
   g_add_r = nondet_int(); g_add_c = nondet_int(); g_nz = nondet_int();
   g_i = nondet_int(); g_c = nondet_int(); g_rh = nondet_int(); g_ch = nondet_int(); g_had = nondet_int();
   g_rv = nondet_ll(); g_cv = nondet_ll(); g_expect = nondet_ll();
   w_ce(rm_i, rm_v, rs, cm_i, cm_v, cs, rowexp, colexp, nr, nc, i, j, val, scale, out);
   CANARY();
}
