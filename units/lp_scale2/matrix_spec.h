/* Specification vocabulary for the two matrix copies of SPxLPBase at R = ledger (C contracts of unit lp_scale2); same
 * storage model as units/lp_mirror/mirror_spec.h, but the value of a cell is a ledger value (long long).
 * A "file" (row file / column file) is a flat array of cells: vector v owns the W cells [v*W, v*W+W), of which the first size[v]
 * are in use.  The contracts see a file `m` as two parallel arrays m_i (indices, int) and m_v (values, R) plus the size array;
 * the wrapper copies them into / out of an array of Nonzero cells {val, idx} (struct nzc, the type the sliced SVector bodies
 * work on).  Everything is written out for at most 4 cells per vector (no quantifier, no loop). */
#ifndef MATRIX_SPEC_H
#define MATRIX_SPEC_H
#include "verif_c.h"
typedef long long R;
#define INF (1LL << 40)
#define FIN (1LL << 30)
#define EXP_MAX (1 << 20)
#define FINITE(x) (-FIN <= (x) && (x) <= FIN)
#define EOK(e) (-EXP_MAX <= (e) && (e) <= EXP_MAX)
struct nzc { R val; int idx; int pad_; };   /* = Nonzero<R> {val, idx} (conformance-checked) + explicit tail padding (the C and the C++ front end must agree on the size) */
/* W = cells per vector of the file (a literal 2, 3 or 4 at every use) */
#define VALAT(m, W, v, p) (m##_v[(v) * (W) + (p)])
#define IDXAT(m, W, v, p) (m##_i[(v) * (W) + (p)])
#define USED(s, v, p) ((p) < (s)[v])
#define HIT(m, W, s, v, p, x) ((p) < (W) && USED(s, v, p) && IDXAT(m, W, v, p) == (x))
/* "vector v has an entry with index x" and its value (first match, as SVectorBase::pos) */
#define HAS(m, W, s, v, x) (HIT(m, W, s, v, 0, x) || HIT(m, W, s, v, 1, x) || HIT(m, W, s, v, 2, x) || HIT(m, W, s, v, 3, x))
#define VALOF(m, W, s, v, x) (HIT(m, W, s, v, 0, x) ? VALAT(m, W, v, 0) : HIT(m, W, s, v, 1, x) ? VALAT(m, W, v, 1) : \
                              HIT(m, W, s, v, 2, x) ? VALAT(m, W, v, 2) : VALAT(m, W, v, (W) - 1))
/* type invariants of an SVSet vector, instantiated at ONE vector v */
#define SIZEOK(W, s, v) (0 <= (s)[v] && (s)[v] <= (W))
#define DUP2(m, W, s, v, p, q) ((q) < (W) && USED(s, v, q) && IDXAT(m, W, v, p) == IDXAT(m, W, v, q))
#define NODUP(m, W, s, v) (!DUP2(m, W, s, v, 0, 1) && !DUP2(m, W, s, v, 0, 2) && !DUP2(m, W, s, v, 1, 2) && \
                           !DUP2(m, W, s, v, 0, 3) && !DUP2(m, W, s, v, 1, 3) && !DUP2(m, W, s, v, 2, 3))
#define INR(m, W, s, v, p, b) (!((p) < (W) && USED(s, v, p)) || (0 <= IDXAT(m, W, v, p) && IDXAT(m, W, v, p) < (b)))
#define INRANGE(m, W, s, v, b) (INR(m, W, s, v, 0, b) && INR(m, W, s, v, 1, b) && INR(m, W, s, v, 2, b) && INR(m, W, s, v, 3, b))
/* entry (a, b) is in vector a of file A  <=>  it is in vector b of file B, with the same value */
#define MIRROR(mA, WA, sA, a, mB, WB, sB, b) (HAS(mA, WA, sA, a, b) == HAS(mB, WB, sB, b, a) && \
                                      (!HAS(mA, WA, sA, a, b) || VALOF(mA, WA, sA, a, b) == VALOF(mB, WB, sB, b, a)))
#endif
