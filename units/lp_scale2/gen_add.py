"""doAddRows / doAddCols instances of unit lp_scale2 (imported by gen_unit_json.py)."""
SV = "src/soplex/svectorbase.h"
LPB = "src/soplex/spxlpbase.h"
sv_slices = [
 {"as":"SV_index.inc","file":SV,"sig":"\\n\\s*int\\s+index\\s*\\(\\s*int\\s+n\\s*\\)\\s*const"},
 {"as":"SV_index_w.inc","file":SV,"sig":"\\n\\s*int&\\s+index\\s*\\(\\s*int\\s+n\\s*\\)"},
 {"as":"SV_value.inc","file":SV,"sig":"const\\s+R&\\s+value\\s*\\(\\s*int\\s+n\\s*\\)\\s*const"},
 {"as":"SV_value_w.inc","file":SV,"sig":"\\n\\s*R&\\s+value\\s*\\(\\s*int\\s+n\\s*\\)"},
]
TRUSTED = [
 "REGION slice: only the loop nest that computes the new vectors' scaling factors and inserts the new elements into the cross file is executed (verbatim, region_start/region_end); the earlier parts of doAddRows/doAddCols (append the set, create missing cross vectors, count per cross vector, xtend + set_size) are replaced by a precondition on the state they leave: S1 new own vectors oldNumber..num()-1 hold nonzeros/sides/objective as entered, legal sizes, one exponent entry per vector in both arrays; S2 every index of a new vector < number of cross vectors; S3 newCols[k]/newRows[k] = number of nonzeros with index k in the new vectors, cross vector k already extended by that many cells (newCols[k] <= size(k) <= max(k))",
 "both loops of the region unwound completely (--unwind CAPO+1 with unwinding assertions); scope: at most CAPO own vectors after the append (CAPO = 2 quick, 3 in the _cap3 instances), any split 0 <= oldNumber <= num() <= CAPO into old and new ones - covered by TWO instances per function (doAddRows: num() == CAPO / num() < CAPO; doAddCols: oldNumber >= 1 / oldNumber == 0) so that the end at which the loop over the new vectors starts is a literal of at most 2 nonzeros each, at most 2 cross vectors of at most 2 cells each",
 "storage model: flat cell arrays, vector v = cells [v*2, v*2+2); SVector index()/value() real bodies (sliced), size()/max() stubs",
 "computeScaleExp stubbed: an arbitrary exponent with |E| <= 2^20 per own vector (real body: units scaler_scalar, lp_addscale:computeScaleExp)",
 "thesense == MAXIMIZE (doAddCols: the `*= -1` for minimisation is not expressible in the ledger)",
 "assumed |scale exponent| <= 2^20 on every read of an exponent array",
]
CONF = [
 {"file":SV,"regex":"R val;[^;]*?\\n\\s*int idx;","why":"struct nzc {val, idx} replicates Nonzero<R>"},
 {"file":SV,"regex":"int\\s+size\\(\\)\\s*const\\s*\\{[^}]*return\\s+memused;","why":"size() stub: the number of used cells"},
 {"file":"src/soplex/lprowsetbase.h","regex":"void\\s+add\\(const\\s+LPRowSetBase<R>&\\s*newset\\).*?scaleExp\\.reSize\\(num\\(\\)\\);","why":"S1: add(set) keeps one exponent entry per row"},
 {"file":"src/soplex/lpcolsetbase.h","regex":"void\\s+add\\(const\\s+LPColSetBase<R>&\\s*newset\\).*?scaleExp\\.reSize\\(num\\(\\)\\);","why":"S1: add(set) keeps one exponent entry per column"},
 {"file":LPB,"regex":"LPColSetBase<R>::xtend\\(i,\\s*len\\);.*?colVector_w\\(i\\)\\.set_size\\(len\\);","why":"S3: doAddRows presets the extended column sizes before the region"},
 {"file":LPB,"regex":"LPRowSetBase<R>::xtend\\(i,\\s*len\\);\\s*rowVector_w\\(i\\)\\.set_size\\(len\\);","why":"S3: doAddCols presets the extended row sizes before the region"},
]
UNW = [{"function":"H::body\\(this\\)","loop":0},{"function":"H::body\\(this\\)","loop":1}]
def inst(name, fn, defs, region_start, region_end, mutants, capo, tier, scope):
    d = {"CAPO":str(capo),"CAPX":"2","MATW":"2","SCOPE":"(%s)" % scope,"ADDSLICE":"\"region.inc\""}; d.update(defs)
    return {"name":name, "function":fn + "  {scope: %s, CAPO = %d}" % (scope, capo), "cpp":["unit_add.cpp"], "c":["contract_add.c"], "harness":"h_add", "enforce":"w_add",
            "defines":d, "slices":sv_slices + [{"as":"region.inc","file":LPB,"region_start":region_start,"region_end":region_end,
                                                "must_contain":["computeScaleExp","scaleExp\\[i\\]"]}],
            "unwind_loops":UNW, "unwind":capo + 1, "conformance":CONF, "trusted":TRUSTED, "min_obligations":150, "tier":tier, "mutants":mutants}
ROWS_FN = "SPxLPBase<R>::doAddRows(const LPRowSetBase<R>& set, bool scale)  [scale == true; region 'compute new row scaling factor and insert new elements to column file']"
COLS_FN = "SPxLPBase<R>::doAddCols(const LPColSetBase<R>& set, bool scale)  [scale == true; region 'insert new elements to row file']"
ROWS_REGION = ("// compute new row scaling factor and insert new elements to column file\\s*for\\(i = nRows\\(\\) - 1; i >= oldRowNumber; --i\\)",
               "#ifndef NDEBUG\\s*for\\(i = 0; i < nCols\\(\\); \\+\\+i\\)\\s*assert\\(newCols\\[i\\] == 0\\);")
COLS_REGION = ("// insert new elements to row file\\s*for\\(i = oldColNumber; i < nCols\\(\\); \\+\\+i\\)",
               "#ifndef NDEBUG\\s*for\\(i = 0; i < nRows\\(\\); \\+\\+i\\)\\s*assert\\(newRows\\[i\\] == 0\\);")
ROWS_MUT = [
 {"name":"seed_exp_at_relative_index","slice":"region.inc","find":"LPRowSetBase<R>::scaleExp[i] = newRowScaleExp;","replace":"LPRowSetBase<R>::scaleExp[i - oldRowNumber] = newRowScaleExp;"},
 {"name":"cross_copy_before_scaling","slice":"region.inc","find":"col->value(idx) = vec.value(j);","replace":"col->value(idx) = vec.value(j) - newRowScaleExp;"},
 {"name":"only_row_exp","slice":"region.inc","find":"newRowScaleExp + colscaleExp[k]","replace":"newRowScaleExp"},
 {"name":"lhs_unguarded","slice":"region.inc","find":"if(lhs(i) > R(-infinity))","replace":"if(lhs(i) >= R(-infinity))"},
 {"name":"exp_not_stored","slice":"region.inc","find":"LPRowSetBase<R>::scaleExp[i] = newRowScaleExp;","replace":""}]
COLS_MUT = [
 {"name":"seed_exp_at_relative_index","slice":"region.inc","find":"LPColSetBase<R>::scaleExp[i] = newColScaleExp;","replace":"LPColSetBase<R>::scaleExp[i - oldColNumber] = newColScaleExp;"},
 {"name":"bounds_wrong_sign","slice":"region.inc","find":"upper_w(i) = spxLdexp(upper_w(i), - newColScaleExp);","replace":"upper_w(i) = spxLdexp(upper_w(i), newColScaleExp);"},
 {"name":"only_col_exp","slice":"region.inc","find":"newColScaleExp + rowscaleExp[k]","replace":"newColScaleExp"},
 {"name":"slot_off_by_one","slice":"region.inc","find":"int idx = row.size() - newRows[k];","replace":"int idx = row.size() - newRows[k] - 1;"}]
def add_instances():
    out = []
    for capo, tier, suffix in ((2, "quick", ""), (3, "thorough", "_cap3")):
        few = (lambda ms: ms) if capo == 2 else (lambda ms: ms[:1])
        # primary scopes: the seeded index fault (needs an old AND a new vector) is refutable here
        out.append(inst("doAddRows_region" + suffix, ROWS_FN, {"NEWROW":""}, ROWS_REGION[0], ROWS_REGION[1], few(ROWS_MUT), capo, tier, "nown == CAPO"))
        out.append(inst("doAddCols_region" + suffix, COLS_FN, {}, COLS_REGION[0], COLS_REGION[1], few(COLS_MUT), capo, tier, "nown0 >= 1"))
        # complementary scopes
        out.append(inst("doAddRows_region_fewer" + suffix, ROWS_FN, {"NEWROW":""}, ROWS_REGION[0], ROWS_REGION[1], few(ROWS_MUT[1:]), capo, tier, "nown < CAPO"))
        out.append(inst("doAddCols_region_allnew" + suffix, COLS_FN, {}, COLS_REGION[0], COLS_REGION[1], few(COLS_MUT[1:]), capo, tier, "nown0 == 0"))
    return out
