/* C11: the four static int-heap helpers of clufactor_rational.hpp (enQueueMaxRat, deQueueMaxRat, enQueueMinRat,
 * deQueueMinRat) through which the sparse left solves of CLUFactorRational visit indices in elimination order.
 * The bodies are #included verbatim from slices cut out of the current tree (SLICE names the slice of this instance).
 * They are plain C over (int* heap, int* size[, int elem]); the parameters are members of the host so that the body
 * runs as a zero-argument member (loop contracts are keyed by the id H::body(this)). */
#include "verif.h"

extern "C" { extern int* gp_heap; extern int* gp_size; }

#ifdef FN_ENQ
struct H
{
   int* heap; int* size; int elem;
   void body()
   {
#include SLICE
   }
};
extern "C" void w_enq(int* heap, int* size, int elem)
{
   VIN("size", *size); VIN("elem", elem); VIN_ARR8("heap", heap, *size + 1);
   H s; s.heap = heap; s.size = size; s.elem = elem;
   gp_heap = heap; gp_size = size;
   s.body();
}
#endif

#ifdef FN_DEQ
struct H
{
   int* heap; int* size;
   int body()
   {
#include SLICE
   }
};
extern "C" int w_deq(int* heap, int* size)
{
   VIN("size", *size); VIN_ARR8("heap", heap, *size);
   H s; s.heap = heap; s.size = size;
   gp_heap = heap; gp_size = size;
   return s.body();
}
#endif
