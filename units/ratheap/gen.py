#!/usr/bin/env python3
"""Generates units/ratheap/unit.json (the max and the min instances differ only in the direction of the comparisons)."""
import json, os

SRC = "src/soplex/clufactor_rational.hpp"
FN = "H::body\\(this\\)"


def sig(name, enq):
    if enq:
        return "static\\s+void\\s+%s\\s*\\(\\s*int\\*\\s*heap\\s*,\\s*int\\*\\s*size\\s*,\\s*int\\s+elem\\s*\\)" % name
    return "static\\s+int\\s+%s\\s*\\(\\s*int\\*\\s*heap\\s*,\\s*int\\*\\s*size\\s*\\)" % name


def enq_loops(mx):
    ge = ">=" if mx else "<="
    gt = ">" if mx else "<"
    H = "gp_heap"
    inv = [
        "0<=j && j<=g_s0 && g_s0<g_cap && *gp_size==g_s0+1",
        # frame: cells beyond the new last slot are never written
        "g_f>g_s0 ==> gp_heap[g_f]==v_f",
        # cells at or above the hole are unchanged
        "g_k<=j ==> %s[g_k]==v_k" % H,
        "(g_k>=1 && g_p<=j) ==> %s[g_p]==v_p" % H,
        "(g_k>=1 && g_p>=1 && g_pp<=j) ==> %s[g_pp]==v_pp" % H,
        # cells below the hole are unchanged or took their parent's old value
        "%s[g_k]==v_k || (g_k>=1 && g_k>j && %s[g_k]==v_p)" % (H, H),
        "(g_k==g_s0 && j<g_s0) ==> (g_k>=1 && %s[g_k]==v_p)" % H,
        # heap order everywhere except at the still-unfilled last slot
        "(g_k>=1 && !(g_k==g_s0 && j==g_s0)) ==> %s[g_p] %s %s[g_k]" % (H, ge, H),
        # elem fits above the children of the hole
        "(g_k>=1 && g_p==j) ==> g_e %s %s[g_k]" % (gt, H),
        # chain: a shifted cell has a parent that is the hole or was shifted too
        "(g_k>=1 && (g_k==g_s0 ? j<g_s0 : %s[g_k]!=v_k)) ==> (g_p==j || (g_p>=1 && %s[g_p]==v_pp))" % (H, H),
    ]
    return [{"function": FN, "loop": 0, "locals": ["i", "j"], "invariants": inv,
             "assigns": ["i", "j", "__CPROVER_object_whole(gp_heap)"], "decreases": "j"}]


def deq_loops(mx):
    ge = ">=" if mx else "<="
    gt = ">" if mx else "<"
    H = "gp_heap"
    n = "(g_s0-1)"
    moved = "((g_c1<%s && %s[g_k]==v_c1) || (g_c2<%s && %s[g_k]==v_c2))" % (n, H, n, H)
    inv = [
        "0<=j && (j==0 || j<%s) && i==2*j+1 && s==g_s0-2 && *gp_size==g_s0-1 && 1<=g_s0 && g_s0<=g_cap && e==v_last && elem==v_root" % n,
        # frame: cells at or beyond the new size (cell 0 excepted when the heap becomes empty) are never written
        "(g_f>=g_s0-1 && g_f>=1) ==> gp_heap[g_f]==v_f",
        # cells at or below the hole (by index) are unchanged
        "g_k>=j ==> %s[g_k]==v_k" % H,
        "(g_k>=1 && g_p>=j) ==> %s[g_p]==v_p" % H,
        "(g_k>=1 && g_sb<g_s0 && g_sb>=j) ==> %s[g_sb]==v_sb" % H,
        "(g_c1<g_s0 && g_c1>=j) ==> %s[g_c1]==v_c1" % H,
        "(g_c2<g_s0 && g_c2>=j) ==> %s[g_c2]==v_c2" % H,
        # cells above the hole are unchanged or took a child's old value
        "%s[g_k]==v_k || (g_k<j && %s)" % (H, moved),
        # heap order everywhere (the hole still carries its old value, which its parent took)
        "(g_k>=1 && g_k<%s) ==> %s[g_p] %s %s[g_k]" % (n, H, ge, H),
        "(g_k==j && g_k>=1) ==> (%s[g_p] %s e && %s[g_p]==v_k)" % (H, gt, H),
        # chain: the root / a cell whose value moved up is the hole or was refilled from a child
        "(g_k<%s && (g_k==0 || (g_dist && %s[g_p]==v_k))) ==> (g_k==j || %s)" % (n, H, moved),
    ]
    return [{"function": FN, "loop": 0, "locals": ["i", "j", "s", "e", "elem", "e1", "e2"], "invariants": inv,
             "assigns": ["i", "j", "e1", "e2", "__CPROVER_object_whole(gp_heap)"], "decreases": "g_s0-j"}]


def enq_mutants(name, mx, bounded):
    inc = name + ".inc"
    cmp_ = "elem > heap[i]" if mx else "elem < heap[i]"
    flip = "elem < heap[i]" if mx else "elem > heap[i]"
    m = [
        {"name": "cmp_flipped", "slice": inc, "find": cmp_, "replace": flip},
        {"name": "wrong_parent", "slice": inc, "find": "i = (j - 1) / 2;", "replace": "i = j / 2;"},
        {"name": "no_final_store", "slice": inc, "find": "heap[j] = elem;", "replace": ";"},
        {"name": "root_not_compared", "slice": inc, "find": "while(j > 0)", "replace": "while(j > 1)"},
    ]
    if bounded:
        m.append({"name": "shift_reversed", "slice": inc, "find": "heap[j] = heap[i];", "replace": "heap[i] = heap[j];"})
    return m


def deq_mutants(name, mx, bounded):
    inc = name + ".inc"
    lt = "<" if mx else ">"
    gt = ">" if mx else "<"
    m = [
        {"name": "seed_single_child_dropped", "slice": inc, "find": "if(i < *size && e %s heap[i])" % lt, "replace": "if(i < s && e %s heap[i])" % lt},
        {"name": "child_index", "slice": inc, "find": "i = 2 * j + 1", "replace": "i = 2 * j"},
        {"name": "no_final_store", "slice": inc, "find": "heap\\[j\\] = e;\\n\\n", "replace": ";\n\n", "regex": True},
        {"name": "cmp_children_flipped", "slice": inc, "find": "if(e1 %s e2)" % gt, "replace": "if(e1 %s e2)" % lt},
        {"name": "loop_bound", "slice": inc, "find": "i < s;", "replace": "i < s - 1;"},
    ]
    return m


def main():
    insts = []
    for name, enq, mx in (("enQueueMaxRat", True, True), ("deQueueMaxRat", False, True),
                          ("enQueueMinRat", True, False), ("deQueueMinRat", False, False)):
        short = ("enq" if enq else "deq") + ("_max" if mx else "_min")
        defs = {"SLICE": "\"%s.inc\"" % name, ("FN_ENQ" if enq else "FN_DEQ"): ""}
        if mx:
            defs["MAXHEAP"] = ""
        slices = [{"as": name + ".inc", "file": SRC, "sig": sig(name, enq)}]
        fn = "%s(int* heap, int* size%s)" % (name, ", int elem" if enq else "")
        base = {"harness": "h_enq" if enq else "h_deq", "enforce": "w_enq" if enq else "w_deq", "slices": slices, "tier": "quick"}
        # unbounded: loop contract
        a = dict(base)
        a.update({"name": short, "function": fn + "  [heap order, size, cell-wise path shift, chain link, frame; loop contract, unbounded]",
                  "defines": dict(defs), "loops": enq_loops(mx) if enq else deq_loops(mx),
                  "min_obligations": 40,
                  "mutants": enq_mutants(name, mx, False) if enq else deq_mutants(name, mx, False)})
        insts.append(a)
        # bounded exhaustive: permutation
        b = dict(base)
        bd = dict(defs); bd["BOUNDED"] = ""; bd["CAP"] = "7"
        b.update({"name": short + "_multiset_bounded",
                  "function": fn + "  [BOUNDED CAP = 7: permutation of the old content plus/minus the element, full heap order, extremum returned]",
                  "defines": bd, "defines_thorough": {"CAP": "7"}, "defines_small": {"CAP": "7"}, "loops": [],
                  "unwind_loops": [{"function": FN, "loop": 0}], "unwind": 5,
                  "min_obligations": 20,
                  "mutants": enq_mutants(name, mx, True) if enq else deq_mutants(name, mx, True)})
        insts.append(b)
    unit = {
        "property": ["C11"],
        "desc": "the four static int-heap helpers of clufactor_rational.hpp (enQueueMaxRat, deQueueMaxRat, enQueueMinRat, deQueueMinRat) "
                "through which the sparse left solves of CLUFactorRational (solveUleft, solveUleftNoNZ, solveLleft*, vSolveLeft*) visit "
                "indices in elimination order: heap order, size, returned root, path shift, frame (unbounded, loop contracts); permutation (bounded)",
        "rmode": "int (no arithmetic abstraction)",
        "defines": {"CAP": "32"},
        "defines_thorough": {"CAP": "64"},
        "defines_small": {"CAP": "7"},
        "flags": ["--bounds-check", "--pointer-check", "--signed-overflow-check"],
        "timeout_s": 120,
        "trusted": [
            "the sliced bodies run as the zero-argument member H::body() of a host whose members heap, size, elem are the parameters (same names, same types)",
            "heap object capped at CAP ints (32 quick / 64 thorough); the sift-up / sift-down proofs are inductive (loop contracts), the cap bounds the object size only",
            "universal statements are made at ONE ghost index g_k; the old heap order is assumed at the pairs around g_k only (parent, grandparent, children), each an instance of the universal precondition",
            "'the returned root is the maximum / minimum' follows from the heap order by transitivity along the path to the root: proved by the tool only in the *_multiset_bounded instances (CAP = 7)",
            "'elem / the old last element is stored in the result' is proved unbounded only as a CHAIN of local links (a shifted cell's neighbour was shifted too or holds the element; the chain is finite), "
            "and for deQueue under the instance 'old values around g_k pairwise different' (g_dist; documented by the code's SOPLEX_DEBUG block, but callers can enqueue an index twice); "
            "the existence itself (and the exact multiset, duplicates included) is proved by the tool only in the *_multiset_bounded instances",
            "*_multiset_bounded instances: BOUNDED, CAP = 7, the single loop of the body unwound completely (--unwind 5 --unwinding-assertions); exhaustive for heaps of at most 7 ints only",
            "SOPLEX_DEBUG is not defined (the pairwise-different self-check inside enQueue*Rat is compiled out, as in every regular build); assert() compiled out",
        ],
        "replay": {"cpp": "replay.cpp", "extra_src": [], "asan": True},
        "instances": insts,
    }
    p = os.path.join(os.path.dirname(os.path.abspath(__file__)), "unit.json")
    json.dump(unit, open(p, "w"), indent=1)
    print("wrote", p, len(insts), "instances")


main()
