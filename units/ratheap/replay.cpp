/* Native replay for the ratheap unit: runs the REAL static heap helpers of clufactor_rational.hpp (they are `static` in the
 * header, so every translation unit that includes it has them) on the counterexample heap and checks size, heap order,
 * the returned root and the multiset. */
#include "replay_util.h"
#include "soplex/clufactor_rational.h"
#include <algorithm>
#include <cstring>
#include <memory>

using namespace soplex;

static bool heapOrdered(const int* h, int n, bool mx, int& bad)
{
   for(int k = 1; k < n; k++)
      if(mx ? h[(k - 1) / 2] < h[k] : h[(k - 1) / 2] > h[k])
      {
         bad = k;
         return false;
      }

   return true;
}

int main(int argc, char** argv)
{
   if(argc < 3) return 2;
   ReplayIn in(argv[1]);
   std::string inst = argv[2];
   bool enq = inst.compare(0, 3, "enq") == 0;
   bool mx = inst.find("_max") != std::string::npos;
   int size = (int)in.geti("size", 0), elem = (int)in.geti("elem", 0);
   if(size < 0 || size > 4096 || (!enq && size < 1)) return 2;
   int cells = size + 1;
   std::vector<int> init = in.getarr("heap", cells);
   int bad = 0;
   if(!heapOrdered(init.data(), size, mx, bad))
   {
      std::cout << "input is not a heap at " << bad << " (verifier trace from a havoc'd loop state?)" << std::endl;
      return 2;
   }
   std::unique_ptr<int[]> memOwner(new int[cells]);
   int* mem = memOwner.get();          /* exactly the cells the helper may touch: ASan sees anything beyond */
   std::memcpy(mem, init.data(), sizeof(int) * cells);
   int n = size, ret = 0;
   std::cout << inst << " on heap of size " << size << ":";
   for(int k = 0; k < size; k++) std::cout << " " << init[k];
   if(enq) std::cout << "  elem " << elem;
   std::cout << std::endl;

   if(enq)
   {
      if(mx) enQueueMaxRat(mem, &n, elem); else enQueueMinRat(mem, &n, elem);
   }
   else
   {
      ret = mx ? deQueueMaxRat(mem, &n) : deQueueMinRat(mem, &n);
   }

   std::cout << "result size " << n << ":";
   for(int k = 0; k < n && k < cells; k++) std::cout << " " << mem[k];
   std::cout << std::endl;

   if(n != (enq ? size + 1 : size - 1)) REPLAY_FAIL("size " << n);
   std::vector<int> a(init.begin(), init.begin() + size), b(mem, mem + n);
   if(enq) a.push_back(elem);
   else
   {
      if(ret != init[0]) REPLAY_FAIL("returned " << ret << ", old root is " << init[0]);
      int ext = mx ? *std::max_element(a.begin(), a.end()) : *std::min_element(a.begin(), a.end());
      if(ret != ext) REPLAY_FAIL("returned " << ret << " is not the extremum " << ext);
      b.push_back(ret);
   }
   if(!heapOrdered(mem, n, mx, bad))
      REPLAY_FAIL("heap order broken: heap[" << (bad - 1) / 2 << "]=" << mem[(bad - 1) / 2] << " is the parent of heap[" << bad << "]=" << mem[bad]);
   std::sort(a.begin(), a.end());
   std::sort(b.begin(), b.end());
   if(a != b) REPLAY_FAIL("result is not a permutation of the old content " << (enq ? "plus elem" : "minus the returned root"));
   REPLAY_OK();
}
