/* Contracts for the int-heap helpers of clufactor_rational.hpp (C11).
 * "For all k" is stated at a ghost index g_k havoc'd by the harness; the values around g_k in the OLD heap are bound to
 * ghost ints in the requires clauses (v_k = old heap[g_k], v_p its parent, v_pp its grandparent, v_c1/v_c2 its children,
 * v_sb its sibling, v_last the old last element, v_root the old root).  The old heap order is assumed at the pairs
 * around g_k only - each an instance of the universal precondition "heap[(t-1)/2] ORD heap[t] for all 1 <= t < size".
 * MAXHEAP: parent >= child (enQueueMaxRat/deQueueMaxRat); otherwise parent <= child (the Min pair). */
#include "verif_c.h"
#ifndef CAP
#define CAP 64
#endif
#ifdef MAXHEAP
#define ORD(par, ch) ((par) >= (ch))
#else
#define ORD(par, ch) ((par) <= (ch))
#endif

int* gp_heap; int* gp_size;
int g_k, g_p, g_pp, g_c1, g_c2, g_sb, g_s0, g_e, g_dist, g_v, g_cap;
int g_f, v_f;
int v_k, v_p, v_pp, v_c1, v_c2, v_sb, v_last, v_root;
int o0, o1, o2, o3, o4, o5, o6;
static void havoc_ghosts(void)
{
   g_k = nondet_int(); g_p = nondet_int(); g_pp = nondet_int(); g_c1 = nondet_int(); g_c2 = nondet_int(); g_sb = nondet_int();
   g_f = nondet_int(); v_f = nondet_int(); g_s0 = nondet_int(); g_cap = nondet_int(); g_e = nondet_int(); g_dist = nondet_int(); g_v = nondet_int();
   v_k = nondet_int(); v_p = nondet_int(); v_pp = nondet_int(); v_c1 = nondet_int(); v_c2 = nondet_int(); v_sb = nondet_int();
   v_last = nondet_int(); v_root = nondet_int();
   o0 = nondet_int(); o1 = nondet_int(); o2 = nondet_int(); o3 = nondet_int(); o4 = nondet_int(); o5 = nondet_int(); o6 = nondet_int();
}

#define FRESH(heap, size) (__CPROVER_is_fresh(size, sizeof(int)) && __CPROVER_is_fresh(heap, CAP * sizeof(int)))

/* ------------------------------------------------------------------------------------------------------------------ */
#if defined(FN_ENQ) && !defined(BOUNDED)
/* enQueue: ghost index 0 <= g_k <= old size (the new last slot included), g_p its parent, g_pp its grandparent */
void w_enq(int* heap, int* size, int elem)
__CPROVER_requires(FRESH(heap, size))
__CPROVER_requires(0 <= *size && *size < CAP)
__CPROVER_requires(g_s0 == *size && g_e == elem && g_cap == CAP)
__CPROVER_requires(0 <= g_k && g_k <= *size && g_p == (g_k - 1) / 2 && g_pp == (g_p - 1) / 2)
__CPROVER_requires(v_k == heap[g_k])                       /* for g_k == old size: the (arbitrary) content of the free slot */
__CPROVER_requires(g_k >= 1 ==> v_p == heap[g_p])
__CPROVER_requires(g_p >= 1 ==> v_pp == heap[g_pp])
/* old heap order, instantiated at (g_p, g_k) and (g_pp, g_p) */
__CPROVER_requires((1 <= g_k && g_k < *size) ==> ORD(v_p, v_k))
__CPROVER_requires((1 <= g_k && 1 <= g_p) ==> ORD(v_pp, v_p))
/* frame: only *size and the cells heap[0 .. old size] are written (callers heapify in place and rely on it): g_f is any other cell */
__CPROVER_requires(0 <= g_f && g_f < CAP && v_f == heap[g_f])
__CPROVER_assigns(gp_heap, gp_size, *size, __CPROVER_object_whole(heap))
__CPROVER_ensures(g_f > g_s0 ==> heap[g_f] == v_f)
__CPROVER_ensures(*size == g_s0 + 1)
/* heap order of the result at every g_k < new size */
__CPROVER_ensures(g_k >= 1 ==> ORD(heap[g_p], heap[g_k]))
/* path shift: every cell is unchanged, or holds the old value of its parent, or elem */
__CPROVER_ensures((g_k < g_s0 && heap[g_k] == v_k) || heap[g_k] == elem || (g_k >= 1 && heap[g_k] == v_p))
/* the new last slot holds elem or the old value of its parent; a heap that was empty holds elem */
__CPROVER_ensures(g_s0 == 0 ==> heap[0] == elem)
/* elem is stored (chain link): a cell that took its parent's value has a parent that holds elem or ITS parent's old value;
 * the root has no parent, so following the links from the last slot upwards ends in a cell that holds elem */
__CPROVER_ensures((g_k >= 1 && (g_k == g_s0 || heap[g_k] != v_k) && heap[g_k] != elem)
                  ==> (heap[g_p] == elem || (g_p >= 1 && heap[g_p] == v_pp)))
;
void h_enq(void)
{
   int* heap; int* size; int elem;
   havoc_ghosts();
   w_enq(heap, size, elem);
   CANARY();
}
#endif

/* ------------------------------------------------------------------------------------------------------------------ */
#if defined(FN_DEQ) && !defined(BOUNDED)
/* deQueue: n = old size - 1 = new size.  Ghost index 0 <= g_k < n (g_k == 0 when n == 0: every clause is guarded by g_k < n),
 * parent g_p, children g_c1, g_c2, sibling g_sb.  g_dist: the old values around g_k are pairwise different where the
 * chain clause needs it (an instance of "elements pairwise different", which the code documents in its SOPLEX_DEBUG block;
 * only the chain clause depends on it). */
#define N0 (g_s0 - 1)
#define MOVED_IN(heap) (heap[g_k] == v_last || (g_c1 < N0 && heap[g_k] == v_c1) || (g_c2 < N0 && heap[g_k] == v_c2))
int w_deq(int* heap, int* size)
__CPROVER_requires(FRESH(heap, size))
__CPROVER_requires(1 <= *size && *size <= CAP)
__CPROVER_requires(g_s0 == *size && g_cap == CAP && v_root == heap[0] && v_last == heap[*size - 1])
__CPROVER_requires(0 <= g_k && (g_k < *size - 1 || g_k == 0))
__CPROVER_requires(g_p == (g_k - 1) / 2 && g_c1 == 2 * g_k + 1 && g_c2 == 2 * g_k + 2 && g_sb == ((g_k & 1) ? g_k + 1 : g_k - 1))
__CPROVER_requires(v_k == heap[g_k])
__CPROVER_requires(g_k >= 1 ==> v_p == heap[g_p])
__CPROVER_requires((g_k >= 1 && g_sb < *size) ==> v_sb == heap[g_sb])
__CPROVER_requires(g_c1 < *size ==> v_c1 == heap[g_c1])
__CPROVER_requires(g_c2 < *size ==> v_c2 == heap[g_c2])
/* old heap order, instantiated at (g_p, g_k), (g_k, g_c1), (g_k, g_c2) */
__CPROVER_requires((1 <= g_k && g_k < *size) ==> ORD(v_p, v_k))
__CPROVER_requires(g_c1 < *size ==> ORD(v_k, v_c1))
__CPROVER_requires(g_c2 < *size ==> ORD(v_k, v_c2))
__CPROVER_requires(g_dist == (g_k >= 1 && g_k < *size - 1 && v_k != v_p && v_k != v_last && (g_sb >= *size || v_k != v_sb)))
/* frame: only *size and the cells heap[0 .. new size) are written (cell 0 also when the heap becomes empty): g_f is any other cell */
__CPROVER_requires(0 <= g_f && g_f < CAP && v_f == heap[g_f])
__CPROVER_assigns(gp_heap, gp_size, *size, __CPROVER_object_whole(heap))
__CPROVER_ensures((g_f >= g_s0 - 1 && g_f >= 1) ==> heap[g_f] == v_f)
/* the old root is returned (by the heap order: the maximum / minimum) */
__CPROVER_ensures(__CPROVER_return_value == v_root)
__CPROVER_ensures(*size == g_s0 - 1)
/* heap order of the result at every g_k < new size */
__CPROVER_ensures((1 <= g_k && g_k < N0) ==> ORD(heap[g_p], heap[g_k]))
/* every cell holds its old value, the old value of one of its two children, or the old last element */
__CPROVER_ensures(g_k < N0 ==> (heap[g_k] == v_k || MOVED_IN(heap)))
/* the old last element is stored (chain): the root was refilled; a cell whose value moved up to its parent was refilled.
 * Following the links from the root downwards ends in a cell that holds the old last element. */
__CPROVER_ensures((g_k < N0 && (g_k == 0 || (g_dist && heap[g_p] == v_k))) ==> MOVED_IN(heap))
;
void h_deq(void)
{
   int* heap; int* size;
   havoc_ghosts();
   w_deq(heap, size);
   CANARY();
}
#endif

/* ------------------------------------------------------------------------------------------------------------------ */
#ifdef BOUNDED
/* exhaustive for CAP == 7 (loops unwound completely): the result is a permutation of the old content plus / minus the
 * element (count of an arbitrary ghost value g_v before and after), full heap order, returned element is the extremum. */
#if CAP != 7
#error "the bounded instances are written for CAP == 7"
#endif
#define BIND_OLD(heap) (o0 == heap[0] && o1 == heap[1] && o2 == heap[2] && o3 == heap[3] && o4 == heap[4] && o5 == heap[5] && o6 == heap[6])
#define IMP(a, b) (!(a) || (b))
#define HEAP7(a0, a1, a2, a3, a4, a5, a6, n) (IMP(1 < (n), ORD(a0, a1)) && IMP(2 < (n), ORD(a0, a2)) && IMP(3 < (n), ORD(a1, a3)) \
   && IMP(4 < (n), ORD(a1, a4)) && IMP(5 < (n), ORD(a2, a5)) && IMP(6 < (n), ORD(a2, a6)))
#define CNT7(a0, a1, a2, a3, a4, a5, a6, n, v) ((0 < (n) && (a0) == (v)) + (1 < (n) && (a1) == (v)) + (2 < (n) && (a2) == (v)) \
   + (3 < (n) && (a3) == (v)) + (4 < (n) && (a4) == (v)) + (5 < (n) && (a5) == (v)) + (6 < (n) && (a6) == (v)))
#define HEAP_OLD(n) HEAP7(o0, o1, o2, o3, o4, o5, o6, n)
#define HEAP_NEW(heap, n) HEAP7(heap[0], heap[1], heap[2], heap[3], heap[4], heap[5], heap[6], n)
#define CNT_OLD(n, v) CNT7(o0, o1, o2, o3, o4, o5, o6, n, v)
#define CNT_NEW(heap, n, v) CNT7(heap[0], heap[1], heap[2], heap[3], heap[4], heap[5], heap[6], n, v)
#define TAIL_SAME(heap, n) (IMP(0 >= (n), heap[0] == o0) && IMP(1 >= (n), heap[1] == o1) && IMP(2 >= (n), heap[2] == o2) && IMP(3 >= (n), heap[3] == o3) \
   && IMP(4 >= (n), heap[4] == o4) && IMP(5 >= (n), heap[5] == o5) && IMP(6 >= (n), heap[6] == o6))
#define ROOT_EXT(r, n) (IMP(0 < (n), ORD(r, o0)) && IMP(1 < (n), ORD(r, o1)) && IMP(2 < (n), ORD(r, o2)) && IMP(3 < (n), ORD(r, o3)) \
   && IMP(4 < (n), ORD(r, o4)) && IMP(5 < (n), ORD(r, o5)) && IMP(6 < (n), ORD(r, o6)))

#ifdef FN_ENQ
void w_enq(int* heap, int* size, int elem)
__CPROVER_requires(FRESH(heap, size))
__CPROVER_requires(0 <= *size && *size < CAP && g_s0 == *size)
__CPROVER_requires(BIND_OLD(heap))
__CPROVER_requires(HEAP_OLD(*size))
__CPROVER_assigns(gp_heap, gp_size, *size, __CPROVER_object_upto(heap, (*size + 1) * sizeof(int)))
__CPROVER_ensures(*size == g_s0 + 1)
__CPROVER_ensures(HEAP_NEW(heap, *size))
__CPROVER_ensures(CNT_NEW(heap, *size, g_v) == CNT_OLD(g_s0, g_v) + (g_v == elem))
__CPROVER_ensures(TAIL_SAME(heap, *size))
;
void h_enq(void)
{
   int* heap; int* size; int elem;
   havoc_ghosts();
   w_enq(heap, size, elem);
   CANARY();
}
#endif

#ifdef FN_DEQ
int w_deq(int* heap, int* size)
__CPROVER_requires(FRESH(heap, size))
__CPROVER_requires(1 <= *size && *size <= CAP && g_s0 == *size)
__CPROVER_requires(BIND_OLD(heap))
__CPROVER_requires(HEAP_OLD(*size))
__CPROVER_assigns(gp_heap, gp_size, *size, heap[0])
__CPROVER_assigns(*size > 1: __CPROVER_object_upto(heap, (*size - 1) * sizeof(int)))
__CPROVER_ensures(*size == g_s0 - 1)
__CPROVER_ensures(__CPROVER_return_value == o0 && ROOT_EXT(__CPROVER_return_value, g_s0))
__CPROVER_ensures(HEAP_NEW(heap, *size))
__CPROVER_ensures(CNT_NEW(heap, *size, g_v) + (g_v == __CPROVER_return_value) == CNT_OLD(g_s0, g_v))
__CPROVER_ensures(TAIL_SAME(heap, *size))
;
void h_deq(void)
{
   int* heap; int* size;
   havoc_ghosts();
   w_deq(heap, size);
   CANARY();
}
#endif
#endif
