/* C06 mirror clause for SPxLPBase<R>::doRemoveRow(int j) / doRemoveCol(int j).
 * "own" = the file of the removed vector (rows for doRemoveRow), "cross" = the other file.  The documented renumbering: the
 * vector with the LAST number gets number j, everything else keeps its number, the count drops by one.
 *
 * Ghost cell: g_i = NEW number of an own vector (or the vanished last number), g_c = a cross vector.  g_src is the OLD number of
 * the vector that the reference model puts at g_i.  The precondition is the LP's representation invariant
 *      (sizes legal, stored indices in range, no index twice in a vector, both files mirror images of each other)
 * INSTANTIATED at the vectors j, last, g_src of the own file and g_c of the cross file - a weaker precondition than the full
 * invariant, hence a stronger theorem.
 * Postcondition = the mirror property at the ghost cell in the new numbering, tied to the reference model:
 *      cross vector g_c has an entry for own vector g_i with value v   <=>   OLD own vector g_src had an entry g_c with value v
 *                                                                       <=>   NEW own vector g_i has an entry g_c with value v,
 * no stored index of g_c refers to a number that no longer exists, no index twice, and g_c lost exactly the entry of old vector j. */
#include "mirror_spec.h"
int g_rm_calls, g_rm_arg, g_rm_set, g_add_r, g_add_c, g_eps, g_sv, g_newnum; const int* gp_cnt;
struct nzc *gp_om, *gp_cm, *gp_pe; int *gp_os, *gp_cs, *gp_perm; int g_pos_i, g_pos_n;
int g_i, g_c, g_src, g_j, g_n0, g_last, g_has, g_v, g_hadj, g_cs0;
/* old content of cross vector g_c, looked up at the indices g_i, j, last (specification ghosts for the loop invariants) */
int g_oh, g_ov, g_ohj, g_ohl, g_ovl;
#ifdef REMROW
#define OWNSET 0
#else
#define OWNSET 1
#endif

void w_rm(int* om_i, int* om_v, int* os, int* cm_i, int* cm_v, int* cs, int* nown, int* ncross, int j)
__CPROVER_requires(__CPROVER_is_fresh(om_i, FILE_CELLS * sizeof(int)) && __CPROVER_is_fresh(om_v, FILE_CELLS * sizeof(int)) && __CPROVER_is_fresh(os, CAP * sizeof(int)))
__CPROVER_requires(__CPROVER_is_fresh(cm_i, FILE_CELLS * sizeof(int)) && __CPROVER_is_fresh(cm_v, FILE_CELLS * sizeof(int)) && __CPROVER_is_fresh(cs, CAP * sizeof(int)))
__CPROVER_requires(__CPROVER_is_fresh(nown, sizeof(int)) && __CPROVER_is_fresh(ncross, sizeof(int)))
__CPROVER_requires(1 <= *nown && *nown <= CAP && 0 <= *ncross && *ncross <= CAP && 0 <= j && j < *nown)
__CPROVER_requires(g_n0 == *nown && g_last == *nown - 1 && g_j == j && g_rm_calls == 0)
/* representation invariant at own vectors j and last (the two the operation is about) */
__CPROVER_requires(SIZEOK(os, j) && SIZEOK(os, g_last) && INRANGE(om, os, j, *ncross) && INRANGE(om, os, g_last, *ncross))
/* ghost cell and the invariant there */
__CPROVER_requires(0 <= g_i && g_i < *nown && 0 <= g_c && g_c < *ncross && g_src == (g_i == j ? g_last : g_i))
__CPROVER_requires(SIZEOK(os, g_src) && SIZEOK(cs, g_c) && INRANGE(cm, cs, g_c, *nown) && NODUP(cm, cs, g_c))
__CPROVER_requires(MIRROR(om, os, j, cm, cs, g_c) && MIRROR(om, os, g_last, cm, cs, g_c) && MIRROR(om, os, g_src, cm, cs, g_c))
/* what the reference model predicts for the ghost cell */
__CPROVER_requires(g_has == HAS(om, os, g_src, g_c) && g_v == VALOF(om, os, g_src, g_c) && g_hadj == HAS(om, os, j, g_c) && g_cs0 == cs[g_c])
/* definitions of the invariant ghosts */
__CPROVER_requires(g_oh == HAS(cm, cs, g_c, g_i) && g_ov == VALOF(cm, cs, g_c, g_i) && g_ohj == HAS(cm, cs, g_c, j))
__CPROVER_requires(g_ohl == HAS(cm, cs, g_c, g_last) && g_ovl == VALOF(cm, cs, g_c, g_last))
__CPROVER_assigns(g_rm_calls, g_rm_arg, g_rm_set, gp_om, gp_os, gp_cm, gp_cs, g_pos_i, g_pos_n, gp_pe, *nown, __CPROVER_object_whole(om_i), __CPROVER_object_whole(om_v), __CPROVER_object_whole(os),
                  __CPROVER_object_whole(cm_i), __CPROVER_object_whole(cm_v), __CPROVER_object_whole(cs))
/* the own set's remove(j) is called exactly once, with j; one vector less; the cross count is untouched */
__CPROVER_ensures(g_rm_calls == 1 && g_rm_arg == j && g_rm_set == OWNSET && *nown == g_n0 - 1)
/* mirror at the ghost cell, new numbering (g_i == last: that number no longer exists, covered by the range clause below) */
__CPROVER_ensures(!(g_i < g_last) || (HAS(cm, cs, g_c, g_i) == g_has && (!g_has || VALOF(cm, cs, g_c, g_i) == g_v)))
__CPROVER_ensures(!(g_i < g_last) || (HAS(om, os, g_i, g_c) == g_has && (!g_has || VALOF(om, os, g_i, g_c) == g_v)))
/* nothing in the cross vector refers to a vanished number; still duplicate-free; it lost exactly old vector j's entry */
__CPROVER_ensures(SIZEOK(cs, g_c) && INRANGE(cm, cs, g_c, *nown) && NODUP(cm, cs, g_c) && cs[g_c] == g_cs0 - (g_hadj ? 1 : 0))
;

void h_rm(void)
{
   int *om_i, *om_v, *os, *cm_i, *cm_v, *cs, *nown, *ncross; int j;
   g_rm_calls = nondet_int(); g_i = nondet_int(); g_c = nondet_int(); g_src = nondet_int(); g_j = nondet_int(); g_n0 = nondet_int(); g_last = nondet_int();
   g_has = nondet_int(); g_v = nondet_int(); g_hadj = nondet_int(); g_cs0 = nondet_int();
   g_oh = nondet_int(); g_ov = nondet_int(); g_ohj = nondet_int(); g_ohl = nondet_int(); g_ovl = nondet_int();
   w_rm(om_i, om_v, os, cm_i, cm_v, cs, nown, ncross, j);
   CANARY();
}
