/* C06 mirror clause for SPxLPBase<R>::doRemoveRows(int perm[]) / doRemoveCols(int perm[]).
 * "own" = the set whose vectors are removed (rows for doRemoveRows), "cross" = the other file, which the body rewrites.
 * On entry perm[m] < 0 marks own vector m for removal.  The own set's remove(perm) (model = the renumbering contract proved in
 * C19/dataset and lpset_remove) turns perm into the new numbering: survivor m -> perm[m] = number of survivors before m.
 * Reference model for the cross file, at a ghost cell (old own number g_x, cross vector g_c):
 *    g_x survives:  cross vector g_c has an entry for own vector perm[g_x] with value v   <=>   it had an entry for g_x with value v
 *    g_x removed :  its entry is gone - every stored index of g_c is a valid NEW number (< new count), none occurs twice, and g_c
 *                   shrank by exactly the number of its entries that referred to removed vectors.
 * Precondition: representation invariant at cross vector g_c (legal size, indices in range, no index twice); cnt[] is the
 * specification ghost "number of survivors before m" (defined cell by cell). */
#include "mirror_spec.h"
int g_rm_calls, g_rm_arg, g_rm_set, g_add_r, g_add_c, g_eps, g_sv, g_newnum; const int* gp_cnt;
struct nzc *gp_om, *gp_cm, *gp_pe; int *gp_os, *gp_cs, *gp_perm; int g_pos_i, g_pos_n;
int g_c, g_x, g_px, g_oh, g_ov, g_n0, g_nc, g_new, g_cs0, g_nrem;
/* old cells of cross vector g_c (specification ghosts for the loop invariants) */
int g_oi0, g_oi1, g_oi2, g_ov0, g_ov1, g_ov2;
/* ... and the new numbers of the own vectors they refer to (negative: removed; -1 for an unused cell) */
int g_p0, g_p1, g_p2;
#define NEWNO(m) (SURV(m) ? cnt[m] : perm[m])
#ifdef REMROW
#define OWNSET 0
#else
#define OWNSET 1
#endif
#define SURV(m) (perm[m] >= 0)
#define P_CNT(m) (!((m) < *nown) || cnt[(m) + 1] == cnt[m] + (SURV(m) ? 1 : 0))
#if CAP == 3
#define ALL_CNT (P_CNT(0) && P_CNT(1) && P_CNT(2))
#else
#define ALL_CNT (P_CNT(0) && P_CNT(1) && P_CNT(2) && P_CNT(3))
#endif
/* number of entries of cross vector g_c that refer to own vectors marked for removal */
#define REM_AT(p) ((USED(cs, g_c, p) && !SURV(IDXAT(cm, g_c, p))) ? 1 : 0)

void w_perm(int* cm_i, int* cm_v, int* cs, int* nown, int* ncross, int* perm, const int* cnt)
__CPROVER_requires(__CPROVER_is_fresh(cm_i, FILE_CELLS * sizeof(int)) && __CPROVER_is_fresh(cm_v, FILE_CELLS * sizeof(int)) && __CPROVER_is_fresh(cs, CAP * sizeof(int)))
__CPROVER_requires(__CPROVER_is_fresh(nown, sizeof(int)) && __CPROVER_is_fresh(ncross, sizeof(int)))
__CPROVER_requires(__CPROVER_is_fresh(perm, CAP * sizeof(int)) && __CPROVER_is_fresh(cnt, (CAP + 1) * sizeof(int)))
__CPROVER_requires(0 <= *nown && *nown <= CAP && 0 <= *ncross && *ncross <= CAP && g_n0 == *nown && g_nc == *ncross && g_rm_calls == 0)
__CPROVER_requires(cnt[0] == 0 && ALL_CNT && g_new == cnt[*nown])
/* ghost cell */
__CPROVER_requires(0 <= g_c && g_c < *ncross && 0 <= g_x && g_x < *nown)
__CPROVER_requires(SIZEOK(cs, g_c) && INRANGE(cm, cs, g_c, *nown) && NODUP(cm, cs, g_c) && g_cs0 == cs[g_c])
__CPROVER_requires(g_oh == HAS(cm, cs, g_c, g_x) && g_ov == VALOF(cm, cs, g_c, g_x) && g_px == (SURV(g_x) ? cnt[g_x] : perm[g_x]))
__CPROVER_requires(g_nrem == REM_AT(0) + REM_AT(1) + REM_AT(2))
__CPROVER_requires(g_oi0 == IDXAT(cm, g_c, 0) && g_oi1 == IDXAT(cm, g_c, 1) && g_oi2 == IDXAT(cm, g_c, 2))
__CPROVER_requires(g_ov0 == VALAT(cm, g_c, 0) && g_ov1 == VALAT(cm, g_c, 1) && g_ov2 == VALAT(cm, g_c, 2))
__CPROVER_requires(g_p0 == (USED(cs, g_c, 0) ? NEWNO(IDXAT(cm, g_c, 0)) : -1) && g_p1 == (USED(cs, g_c, 1) ? NEWNO(IDXAT(cm, g_c, 1)) : -1)
                   && g_p2 == (USED(cs, g_c, 2) ? NEWNO(IDXAT(cm, g_c, 2)) : -1))
__CPROVER_assigns(g_rm_calls, g_rm_set, g_newnum, gp_cnt, gp_perm, gp_cm, gp_cs, *nown, __CPROVER_object_whole(perm),
                  __CPROVER_object_whole(cm_i), __CPROVER_object_whole(cm_v), __CPROVER_object_whole(cs))
/* the own set's remove(perm) is called exactly once; perm is then the new numbering */
__CPROVER_ensures(g_rm_calls == 1 && g_rm_set == OWNSET && *nown == g_new && perm[g_x] == g_px)
/* survivor: its entry is now stored under its new number, same value */
__CPROVER_ensures(!(g_px >= 0) || (HAS(cm, cs, g_c, g_px) == g_oh && (!g_oh || VALOF(cm, cs, g_c, g_px) == g_ov)))
/* removed ones are gone: only valid new numbers remain, none twice, and the vector shrank by the number of removed references */
__CPROVER_ensures(SIZEOK(cs, g_c) && INRANGE(cm, cs, g_c, *nown) && NODUP(cm, cs, g_c) && cs[g_c] == g_cs0 - g_nrem)
;

void h_perm(void)
{
   int *cm_i, *cm_v, *cs, *nown, *ncross, *perm; const int* cnt;
   g_rm_calls = nondet_int(); g_c = nondet_int(); g_x = nondet_int(); g_px = nondet_int(); g_oh = nondet_int(); g_ov = nondet_int();
   g_n0 = nondet_int(); g_nc = nondet_int(); g_new = nondet_int(); g_cs0 = nondet_int(); g_nrem = nondet_int();
   g_p0 = nondet_int(); g_p1 = nondet_int(); g_p2 = nondet_int(); g_oi0 = nondet_int(); g_oi1 = nondet_int(); g_oi2 = nondet_int(); g_ov0 = nondet_int(); g_ov1 = nondet_int(); g_ov2 = nondet_int();
   w_perm(cm_i, cm_v, cs, nown, ncross, perm, cnt);
   CANARY();
}
