/* C06 mirror clause for SPxLPBase<R>::changeElement(int i, int j, const R& val, bool scale), scale == false.
 * Reference model: afterwards the LP has coefficient val at (i, j) if val counts as nonzero (|val| > epsilon, SoPlex's isNotZero,
 * real body; epsilon = arbitrary eps >= 0) and no entry there otherwise; every other coefficient is unchanged.
 * The contract states this for BOTH files: row i has an entry j with value val  <=>  NZ(val)  <=>  column j has an entry i with
 * value val (covers the three branches: overwrite an existing entry, add2 to both files, remove from both files), and at a ghost
 * cell (g_i, g_c) != (i, j) both files still say what they said before (frame, per file - no mirror assumption there).
 * Precondition: the LP's representation invariant instantiated at row i and column j (legal sizes, no index twice, mirror at the
 * cell (i, j)); room for one more nonzero in both vectors when the entry is new (the model has fixed capacity MATW; the real SVSet
 * grows: SVSetBase::xtend, C19). */
#include "mirror_spec.h"
int g_rm_calls, g_rm_arg, g_rm_set, g_add_r, g_add_c, g_eps, g_sv, g_newnum; const int* gp_cnt;
struct nzc *gp_om, *gp_cm, *gp_pe; int *gp_os, *gp_cs, *gp_perm; int g_pos_i, g_pos_n;
int g_i, g_c, g_rh, g_rv, g_ch, g_cv, g_had;
#define BIG (1 << 30)
#define NZ(v) ((v) > g_eps || (v) < -g_eps)
#define ACTIVE (i >= 0 && j >= 0)

void w_ce(int* rm_i, int* rm_v, int* rs, int* cm_i, int* cm_v, int* cs, int* nr, int* nc, int i, int j, int val, _Bool scale)
__CPROVER_requires(__CPROVER_is_fresh(rm_i, FILE_CELLS * sizeof(int)) && __CPROVER_is_fresh(rm_v, FILE_CELLS * sizeof(int)) && __CPROVER_is_fresh(rs, CAP * sizeof(int)))
__CPROVER_requires(__CPROVER_is_fresh(cm_i, FILE_CELLS * sizeof(int)) && __CPROVER_is_fresh(cm_v, FILE_CELLS * sizeof(int)) && __CPROVER_is_fresh(cs, CAP * sizeof(int)))
__CPROVER_requires(__CPROVER_is_fresh(nr, sizeof(int)) && __CPROVER_is_fresh(nc, sizeof(int)))
__CPROVER_requires(1 <= *nr && *nr <= CAP && 1 <= *nc && *nc <= CAP && i < *nr && j < *nc && !scale)
__CPROVER_requires(0 <= g_eps && g_eps < BIG && -BIG < val && val < BIG && g_add_r == 0 && g_add_c == 0)
/* representation invariant at row i / column j, and room for a new entry */
__CPROVER_requires(!ACTIVE || (SIZEOK(rs, i) && SIZEOK(cs, j) && NODUP(rm, rs, i) && NODUP(cm, cs, j) && MIRROR(rm, rs, i, cm, cs, j)))
__CPROVER_requires(!ACTIVE || HAS(rm, rs, i, j) || (rs[i] < MATW && cs[j] < MATW))
__CPROVER_requires(g_had == (ACTIVE && HAS(rm, rs, i, j)))
/* ghost cell: what each file says there before the call */
__CPROVER_requires(0 <= g_i && g_i < *nr && 0 <= g_c && g_c < *nc && SIZEOK(rs, g_i) && SIZEOK(cs, g_c))
__CPROVER_requires(g_rh == HAS(rm, rs, g_i, g_c) && g_rv == VALOF(rm, rs, g_i, g_c) && g_ch == HAS(cm, cs, g_c, g_i) && g_cv == VALOF(cm, cs, g_c, g_i))
__CPROVER_assigns(g_add_r, g_add_c, gp_om, gp_os, gp_cm, gp_cs, g_pos_i, g_pos_n, gp_pe, __CPROVER_object_whole(rm_i), __CPROVER_object_whole(rm_v),
                  __CPROVER_object_whole(rs), __CPROVER_object_whole(cm_i), __CPROVER_object_whole(cm_v), __CPROVER_object_whole(cs))
/* the changed cell, in both files */
__CPROVER_ensures(!ACTIVE || (HAS(rm, rs, i, j) == NZ(val) && HAS(cm, cs, j, i) == NZ(val)))
__CPROVER_ensures(!(ACTIVE && NZ(val)) || (VALOF(rm, rs, i, j) == val && VALOF(cm, cs, j, i) == val))
__CPROVER_ensures(!ACTIVE || (SIZEOK(rs, i) && SIZEOK(cs, j) && NODUP(rm, rs, i) && NODUP(cm, cs, j)))
/* a new entry is handed to BOTH sets (one add2 each), an existing one to neither */
__CPROVER_ensures(g_add_r == g_add_c && g_add_r == ((ACTIVE && NZ(val) && !g_had) ? 1 : 0))
/* every other cell: unchanged in both files */
__CPROVER_ensures((ACTIVE && g_i == i && g_c == j) || (HAS(rm, rs, g_i, g_c) == g_rh && (!g_rh || VALOF(rm, rs, g_i, g_c) == g_rv)))
__CPROVER_ensures((ACTIVE && g_i == i && g_c == j) || (HAS(cm, cs, g_c, g_i) == g_ch && (!g_ch || VALOF(cm, cs, g_c, g_i) == g_cv)))
;

void h_ce(void)
{
   int *rm_i, *rm_v, *rs, *cm_i, *cm_v, *cs, *nr, *nc; int i, j, val; _Bool scale;
   g_add_r = nondet_int(); g_add_c = nondet_int(); g_eps = nondet_int(); g_sv = nondet_int();
   g_i = nondet_int(); g_c = nondet_int(); g_rh = nondet_int(); g_rv = nondet_int(); g_ch = nondet_int(); g_cv = nondet_int(); g_had = nondet_int();
   w_ce(rm_i, rm_v, rs, cm_i, cm_v, cs, nr, nc, i, j, val, scale);
   CANARY();
}
