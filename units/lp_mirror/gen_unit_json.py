"""Generates unit.json of unit lp_mirror (the loop invariants are the mirror_spec.h macros written out: loops.json has no preprocessor).
Run: python3 gen_unit_json.py  (rewrites unit.json next to it)."""
import json
SV = "src/soplex/svectorbase.h"
LPB = "src/soplex/spxlpbase.h"
sv_slices = [
 {"as":"SV_index.inc","file":SV,"sig":"\\n\\s*int\\s+index\\s*\\(\\s*int\\s+n\\s*\\)\\s*const"},
 {"as":"SV_index_w.inc","file":SV,"sig":"\\n\\s*int&\\s+index\\s*\\(\\s*int\\s+n\\s*\\)"},
 {"as":"SV_value.inc","file":SV,"sig":"const\\s+R&\\s+value\\s*\\(\\s*int\\s+n\\s*\\)\\s*const"},
 {"as":"SV_value_w.inc","file":SV,"sig":"\\n\\s*R&\\s+value\\s*\\(\\s*int\\s+n\\s*\\)"},
 {"as":"SV_pos.inc","file":SV,"sig":"int\\s+pos\\s*\\(\\s*int\\s+i\\s*\\)\\s*const"},
 {"as":"SV_remove1.inc","file":SV,"sig":"void\\s+remove\\s*\\(\\s*int\\s+n\\s*\\)"},
 {"as":"SV_add1.inc","file":SV,"sig":"void\\s+add\\s*\\(\\s*int\\s+i\\s*,\\s*const\\s+R&\\s*v\\s*\\)"},
 {"as":"isNotZero.inc","file":"src/soplex/spxdefines.hpp","sig":"inline\\s+bool\\s+isNotZero\\s*\\(\\s*R\\s+a\\s*,\\s*T\\s+eps\\s*\\)"},
]
def sl(as_, sig): return {"as":as_,"file":LPB,"sig":sig}
UNW = [{"function":".*","loop":0},{"function":".*","loop":1}]

def IDX(m,v,p): return "%s[(%s)*3+%d].idx" % (m,v,p)
def VAL(m,v,p): return "%s[(%s)*3+%d].val" % (m,v,p)
def HIT(m,s,v,p,x): return "(%d<%s[%s] && %s==(%s))" % (p,s,v,IDX(m,v,p),x)
def HAS(m,s,v,x): return "(" + " || ".join(HIT(m,s,v,p,x) for p in range(3)) + ")"
def VALOF(m,s,v,x): return "(%s ? %s : %s ? %s : %s)" % (HIT(m,s,v,0,x),VAL(m,v,0),HIT(m,s,v,1,x),VAL(m,v,1),VAL(m,v,2))
def SIZEOK(s,v): return "(0<=%s[%s] && %s[%s]<=3)" % (s,v,s,v)
def NODUP(m,s,v): return "(!(1<%s[%s] && %s==%s) && !(2<%s[%s] && (%s==%s || %s==%s)))" % (s,v,IDX(m,v,0),IDX(m,v,1),s,v,IDX(m,v,0),IDX(m,v,2),IDX(m,v,1),IDX(m,v,2))
def INRANGE(m,s,v,b): return "(" + " && ".join("(!(%d<%s[%s]) || (0<=%s && %s<(%s)))" % (p,s,v,IDX(m,v,p),IDX(m,v,p),b) for p in range(3)) + ")"
# "own vector v has cross index g_c at a position > i" (positions already visited by a loop running i downwards)
def PAST(v): return "(" + " || ".join("(i<%d && %s)" % (p, HIT("gp_om","gp_os",v,p,"g_c")) for p in range(3)) + ")"
CM, CS = "gp_cm", "gp_cs"
TYPEINV = "%s && %s && %s" % (SIZEOK(CS,"g_c"), NODUP(CM,CS,"g_c"), INRANGE(CM,CS,"g_c","g_n0"))
P1, P2 = PAST("g_j"), PAST("g_last")
POS_LOOP = {"function":"SVectorBase<signed_int>::pos0\\(\\$constthis\\)","loop":0,"locals":["p","n"],
  "invariants":["0<=p && p<=n && n==g_pos_n", "(p>0 ? gp_pe[0].idx!=g_pos_i : 1) && (p>1 ? gp_pe[1].idx!=g_pos_i : 1) && (p>2 ? gp_pe[2].idx!=g_pos_i : 1)"],
  "assigns":["p"],"decreases":"n-p"}
def rm_loops(loc0, loc1):
    import copy
    l = copy.deepcopy(RM_LOOPS_); l[1]["locals"] = [loc0]; l[2]["locals"] = [loc1]; return l
RM_LOOPS_ = [POS_LOOP,
 {"function":"H::body\\(this\\)","loop":0,"locals":[["i","1::1::i"]],
  "invariants":[
   "-1<=i && i<gp_os[g_j]", "g_rm_calls==0", TYPEINV,
   # ghost cell: unchanged, except that vector j's entry is gone once the loop has passed the position of g_c in vector j
   "%s == (g_oh && !(g_i==g_j && %s))" % (HAS(CM,CS,"g_c","g_i"), P1),
   "!%s || %s==g_ov" % (HAS(CM,CS,"g_c","g_i"), VALOF(CM,CS,"g_c","g_i")),
   "%s == (g_ohj && !%s)" % (HAS(CM,CS,"g_c","g_j"), P1),
   "%s == (g_ohl && !(g_last==g_j && %s))" % (HAS(CM,CS,"g_c","g_last"), P1),
   "!%s || %s==g_ovl" % (HAS(CM,CS,"g_c","g_last"), VALOF(CM,CS,"g_c","g_last")),
   "gp_cs[g_c] == g_cs0 - ((g_ohj && %s) ? 1 : 0)" % P1],
  "assigns":["i","g_pos_i","g_pos_n","gp_pe","__CPROVER_object_whole(gp_cm)","__CPROVER_object_whole(gp_cs)"],
  "decreases":"i"},
 {"function":"H::body\\(this\\)","loop":1,"locals":[["i","2::1::i"]],
  "invariants":[
   "-1<=i && i<gp_os[g_last]", "g_rm_calls==0", TYPEINV,
   # entries of other vectors untouched; the last vector's entry is stored under number j once the loop has passed it
   "(g_i==g_j || g_i==g_last) || (%s == g_oh && (!g_oh || %s==g_ov))" % (HAS(CM,CS,"g_c","g_i"), VALOF(CM,CS,"g_c","g_i")),
   "%s == (g_ohl && %s)" % (HAS(CM,CS,"g_c","g_j"), P2),
   "!%s || %s==g_ovl" % (HAS(CM,CS,"g_c","g_j"), VALOF(CM,CS,"g_c","g_j")),
   "%s == (g_ohl && !%s)" % (HAS(CM,CS,"g_c","g_last"), P2),
   "!%s || %s==g_ovl" % (HAS(CM,CS,"g_c","g_last"), VALOF(CM,CS,"g_c","g_last"))],
  "assigns":["i","g_pos_i","g_pos_n","gp_pe","__CPROVER_object_whole(gp_cm)"],
  "decreases":"i"}]
insts = []
def rm(name, fn, slice_as, sig, defs, muts, loops):
    d = {"INST_RM":"", "ASSUME_VIEW_SIZE":"", "SLICE":"\"%s\"" % slice_as}; d.update(defs)
    insts.append({"name":name,"function":fn,"defines":d,"c":["contract_rm.c"],"harness":"h_rm","enforce":"w_rm",
      "slices": sv_slices+[sl(slice_as,sig)], "loops":loops, "min_obligations":100, "tier":"quick", "mutants":muts})
rm("doRemoveRow","SPxLPBase<R>::doRemoveRow(int j)","doRemoveRow.inc","virtual\\s+void\\s+doRemoveRow\\s*\\(\\s*int\\s+j\\s*\\)",{"REMROW":""},[
  {"name":"renumber_wrong_index","slice":"doRemoveRow.inc","find":"movevec.index(position) = j;","replace":"movevec.index(position) = idx;"},
  {"name":"renumber_wrong_position","slice":"doRemoveRow.inc","find":"movevec.index(position) = j;","replace":"movevec.index(0) = j;"},
  {"name":"remove_wrong_position","slice":"doRemoveRow.inc","find":"remvec.remove(position);","replace":"remvec.remove(0);"},
  {"name":"only_column_file","slice":"doRemoveRow.inc","find":"LPRowSetBase<R>::remove(j);","replace":""},
  {"name":"only_row_file","slice":"doRemoveRow.inc","find":"remvec.remove(position);","replace":"(void)0;"},
  {"name":"wrong_lookup","slice":"doRemoveRow.inc","find":"int position = movevec.pos(idx);","replace":"int position = movevec.pos(j);"}], rm_loops(["i","1::1::i"],["i","2::1::i"]))
rm("doRemoveCol","SPxLPBase<R>::doRemoveCol(int j)","doRemoveCol.inc","virtual\\s+void\\s+doRemoveCol\\s*\\(\\s*int\\s+j\\s*\\)",{},[
  {"name":"renumber_wrong_index","slice":"doRemoveCol.inc","find":"movevec.index(position) = j;","replace":"movevec.index(position) = idx;"},
  {"name":"remove_wrong_position","slice":"doRemoveCol.inc","find":"remvec.remove(position);","replace":"remvec.remove(i);"},
  {"name":"only_row_file","slice":"doRemoveCol.inc","find":"LPColSetBase<R>::remove(j);","replace":""},
  {"name":"last_not_moved","slice":"doRemoveCol.inc","find":"if(j != idx)","replace":"if(j > idx)"},
  {"name":"removes_last_instead","slice":"doRemoveCol.inc","find":"int position = remvec.pos(j);","replace":"int position = remvec.pos(nCols() - 1);"}], rm_loops("i","i"))
def more(insts, sv_slices, sl, UNW, POS_LOOP=None, **kw):
    ce = "changeElement.inc"
    insts.append({"name":"changeElement","function":"SPxLPBase<R>::changeElement(int i, int j, const R& val, bool scale)  [scale == false]",
      "defines":{"INST_CE":"","SLICE":"\"%s\"" % ce},"c":["contract_ce.c"],"harness":"h_ce","enforce":"w_ce",
      "slices": sv_slices+[sl(ce,"virtual\\s+void\\s+changeElement\\s*\\(\\s*int\\s+i\\s*,\\s*int\\s+j\\s*,\\s*const\\s+R&\\s*val\\s*,\\s*bool\\s+scale\\s*=\\s*false\\s*\\)")],
      "loops":[POS_LOOP], "min_obligations":100, "tier":"quick",
      "mutants":[
       {"name":"overwrite_only_row","slice":ce,"find":"col.value(col.pos(i)) = newVal;","replace":"(void)0;"},
       {"name":"add_only_row","slice":ce,"find":"LPColSetBase<R>::add2(j, 1, &i, &newVal);","replace":"(void)0;"},
       {"name":"add_transposed","slice":ce,"find":"LPColSetBase<R>::add2(j, 1, &i, &newVal);","replace":"LPColSetBase<R>::add2(i, 1, &j, &newVal);"},
       {"name":"remove_only_row","slice":ce,"find":"col.remove(col.pos(i));","replace":"(void)0;"},
       {"name":"remove_wrong_position","slice":ce,"find":"col.remove(col.pos(i));","replace":"col.remove(row.pos(j));"},
       {"name":"lookup_transposed","slice":ce,"find":"col.value(col.pos(i)) = newVal;","replace":"col.value(col.pos(j)) = newVal;"},
       {"name":"zero_test_inverted","slice":ce,"find":"if(isNotZero(val, this->tolerances()->epsilon()))","replace":"if(!isNotZero(val, this->tolerances()->epsilon()))"}]})

def more2(insts, sv_slices, sl, G):
    HAS, VALOF, SIZEOK, NODUP, INRANGE = G["HAS"], G["VALOF"], G["SIZEOK"], G["NODUP"], G["INRANGE"]
    CM, CS = "gp_cm", "gp_cs"
    same = " && ".join("gp_cm[g_c*3+%d].idx==g_oi%d && gp_cm[g_c*3+%d].val==g_ov%d" % (p,p,p,p) for p in range(3)) + " && gp_cs[g_c]==g_cs0"
    post = "(g_px>=0 ? (%s==g_oh && (!g_oh || %s==g_ov)) : 1) && %s && %s && %s && gp_cs[g_c]==g_cs0-g_nrem" % (
        HAS(CM,CS,"g_c","g_px"), VALOF(CM,CS,"g_c","g_px"), SIZEOK(CS,"g_c"), INRANGE(CM,CS,"g_c","g_new"), NODUP(CM,CS,"g_c"))
    cell = lambda r: "gp_cm[g_c*3+%d]" % r
    S = "gp_cs[g_c]"
    # cell r holds the renumbered survivor that was at old position q
    isq = lambda r,q: "(%s.idx==g_p%d && %s.val==g_ov%d)" % (cell(r),q,cell(r),q)
    done = lambda q: "(k<%d && %d<g_cs0 && g_p%d>=0)" % (q,q,q)          # old position q already processed and a survivor
    zone = lambda r: "(k<%d && %d<%s)" % (r,r,S)                          # position r holds a processed entry
    mid = " && ".join(
        ["k+1<=%s && %s<=g_cs0" % (S,S)] +
        ["(%d<=k ? (%s.idx==g_oi%d && %s.val==g_ov%d) : 1)" % (q,cell(q),q,cell(q),q) for q in range(3)] +
        ["(%s ? (%s) : 1)" % (done(q), " || ".join("(%s && %s)" % (zone(r), isq(r,q)) for r in range(3))) for q in range(3)] +
        ["(%s ? (%s) : 1)" % (zone(r), " || ".join("(%s && %s)" % (done(q), isq(r,q)) for q in range(3))) for r in range(3)] +
        ["%s-(k+1) == %s" % (S, " + ".join("(%s ? 1 : 0)" % done(q) for q in range(3)))])
    def inst(name, fn, slice_as, sig, defs, outer_local, muts):
        d = {"INST_PERM":"","ASSUME_VIEW_SIZE":"","ASSUME_INDEX_RANGE":"","SLICE":"\"%s\"" % slice_as}; d.update(defs)
        insts.append({"name":name,"function":fn,"defines":d,"c":["contract_perm.c"],"harness":"h_perm","enforce":"w_perm",
          "slices": sv_slices+[sl(slice_as,sig)],
          "loops":[G["POS_LOOP"]] and [{"function":"H::body\\(this\\)","loop":0,"locals":["k",outer_local],
             "invariants":["0<=i && i<g_nc", "-1<=k && k<gp_cs[i] && gp_cs[i]<=3", "i<g_c ? (%s) : (i>g_c ? (%s) : (%s))" % (same, post, mid)],
             "assigns":["k","__CPROVER_object_whole(gp_cm)","__CPROVER_object_whole(gp_cs)"],"decreases":"k"},
            {"function":"H::body\\(this\\)","loop":1,"locals":[outer_local],
             "invariants":["0<=i && i<=g_nc", "i<=g_c ? (%s) : (%s)" % (same, post)],
             "assigns":["i","__CPROVER_object_whole(gp_cm)","__CPROVER_object_whole(gp_cs)"],"decreases":"g_nc-i"}],
          "min_obligations":100,"tier":"quick","mutants":muts})
    inst("doRemoveRows_perm","SPxLPBase<R>::doRemoveRows(int perm[])","doRemoveRows.inc","virtual\\s+void\\s+doRemoveRows\\s*\\(\\s*int\\s+perm\\[\\]\\s*\\)",{"REMROW":""},"i",[
      {"name":"not_renumbered","slice":"doRemoveRows.inc","find":"vec.index(k) = perm[idx];","replace":"vec.index(k) = idx;"},
      {"name":"renumber_by_position","slice":"doRemoveRows.inc","find":"vec.index(k) = perm[idx];","replace":"vec.index(k) = perm[k];"},
      {"name":"remove_wrong_position","slice":"doRemoveRows.inc","find":"vec.remove(k);","replace":"vec.remove(0);"},
      {"name":"removed_kept","slice":"doRemoveRows.inc","find":"if(perm[idx] < 0)","replace":"if(perm[idx] < -1)"},
      {"name":"last_column_skipped","slice":"doRemoveRows.inc","find":"i < j; ++i","replace":"i < j - 1; ++i"}])
    inst("doRemoveCols_perm","SPxLPBase<R>::doRemoveCols(int perm[])","doRemoveCols.inc","virtual\\s+void\\s+doRemoveCols\\s*\\(\\s*int\\s+perm\\[\\]\\s*\\)",{},"i",[
      {"name":"not_renumbered","slice":"doRemoveCols.inc","find":"vec.index(k) = perm[idx];","replace":"vec.index(k) = idx;"},
      {"name":"remove_wrong_position","slice":"doRemoveCols.inc","find":"vec.remove(k);","replace":"vec.remove(k + 1 < vec.size() ? k + 1 : k);"},
      {"name":"survivor_test_inverted","slice":"doRemoveCols.inc","find":"if(perm[idx] < 0)","replace":"if(perm[idx] >= 0)"},
      {"name":"first_row_skipped","slice":"doRemoveCols.inc","find":"int i = 0; i < nrows","replace":"int i = 1; i < nrows"}])

more(insts, sv_slices, sl, UNW, POS_LOOP=POS_LOOP, H=globals()); more2(insts, sv_slices, sl, globals())
u = {"property":["C06"],
 "desc":"SPxLPBase doRemoveRow/doRemoveCol/changeElement/doRemoveRows/doRemoveCols keep the row file and the column file mirror images (ghost cell)",
 "rmode":"int (values are only copied and compared with zero / epsilon)",
 "defines":{"CAP":"3","MATW":"3"},
 "defines_thorough":{"CAP":"4"},
 "flags":["--bounds-check","--pointer-check","--signed-overflow-check"],
 "timeout_s":300,
 "conformance":[
  {"file":SV,"regex":"R val;[^;]*?\\n\\s*int idx;","why":"struct nzc {val, idx} replicates Nonzero<R>"},
  {"file":SV,"regex":"int\\s+size\\(\\)\\s*const\\s*\\{[^}]*return\\s+memused;","why":"size() stub: the number of used cells"},
  {"file":SV,"regex":"void\\s+set_size\\(int\\s+s\\)\\s*\\{[^}]*memused\\s*=\\s*s;","why":"set_size() stub"},
  {"file":SV,"regex":"void\\s+add\\(int\\s+n,\\s*const\\s+int\\s+i\\[\\],\\s*const\\s+R\\s+v\\[\\]\\).*?if\\(\\*v\\s*!=\\s*0\\.0\\)\\s*\\{\\s*assert\\(e\\s*!=\\s*nullptr\\);\\s*e->idx\\s*=\\s*\\*i;\\s*e->val\\s*=\\s*\\*v;\\s*e\\+\\+;\\s*\\+\\+newnnz;","why":"n-ary SVector::add stores (idx, val) of every nonzero value exactly as add(int, const R&) does (model: n == 1)"},
  {"file":"src/soplex/svsetbase.h","regex":"void\\s+add2\\(SVectorBase<R>&\\s*svec,\\s*int\\s+n,\\s*const\\s+int\\s+idx\\[\\],\\s*const\\s+R\\s+val\\[\\]\\)\\s*\\{\\s*xtend\\(svec,\\s*svec\\.size\\(\\)\\s*\\+\\s*n\\);\\s*svec\\.add\\(n,\\s*idx,\\s*val\\);","why":"add2 model = make room + SVector::add(n, idx, val) (real body sliced)"},
  {"file":"src/soplex/lprowsetbase.h","regex":"void\\s+add2\\(int\\s+i,\\s*int\\s+n,\\s*const\\s+int\\s+idx\\[\\],\\s*const\\s+R\\s+val\\[\\]\\)\\s*\\{\\s*SVSetBase<R>::add2\\(rowVector_w\\(i\\),\\s*n,\\s*idx,\\s*val\\);","why":"LPRowSetBase::add2 forwards to SVSetBase::add2 on row i"},
  {"file":"src/soplex/lpcolsetbase.h","regex":"void\\s+add2\\(int\\s+i,\\s*int\\s+n,\\s*const\\s+int\\s+idx\\[\\],\\s*const\\s+R\\s+val\\[\\]\\)\\s*\\{\\s*SVSetBase<R>::add2\\(colVector_w\\(i\\),\\s*n,\\s*idx,\\s*val\\);","why":"LPColSetBase::add2 forwards to SVSetBase::add2 on column i"},
  {"file":"src/soplex/lprowsetbase.h","regex":"void\\s+remove\\(int\\s+i\\)\\s*\\{\\s*SVSetBase<R>::remove\\(i\\);","why":"LPRowSetBase::remove(i) removes vector i of the SVSet (last vector takes its number: DataSet::remove, C19)"},
  {"file":"src/soplex/lpcolsetbase.h","regex":"void\\s+remove\\(int\\s+i\\)\\s*\\{\\s*SVSetBase<R>::remove\\(i\\);","why":"LPColSetBase::remove(i) likewise"},
  {"file":LPB,"regex":"SVectorBase<R>&\\s*colVector_w\\(int\\s+i\\)\\s*\\{\\s*return\\s+LPColSetBase<R>::colVector_w\\(i\\);","why":"SPxLPBase forwarders are one-liners"}
 ],
 "trusted":[
  "storage model: each matrix copy is a flat array of Nonzero cells, vector v = cells [v*MATW, v*MATW+MATW) with MATW = 3, size[v] cells in use (vectors of an SVSet never overlap: by construction); at most CAP vectors per file are ALLOCATED (3 quick / 4 thorough); the numbers of rows/columns are otherwise arbitrary (loops over them carry loop contracts)",
  "struct nzc {val, idx} replicates Nonzero<int> (conformance-checked); the wrapper copies the contract's parallel index/value arrays into / out of nzc cells (straight-line)",
  "SVectorBase: pos, remove(n), add(i,v), index, value are the REAL bodies (sliced from svectorbase.h); pos() is hosted in a zero-argument member and its loop carries an inductive loop contract written out for the first MATW = 3 cells (exact for vectors of at most 3 nonzeros); size()/set_size()/max() are stubs (the size lives in the flat file, max() == MATW); m_elem = address of the vector's first cell; bounds assertions added to index/value/remove/add",
  "LPRowSetBase/LPColSetBase::remove(int) MODEL: the vector with the last number takes number n, num() drops by one (SVSetBase::remove(int) -> DataSet::remove(int), property C19 unit dataset); the dense side/bound vectors moved by the real remove(int) are not part of this unit (lpset_remove / C19)",
  "LPRowSetBase/LPColSetBase::add2(i, 1, idx, val) MODEL: SVector::add(idx[0], val[0]) (real body of add(int, const R&); the n-ary add stores idx/val and counts the nonzero in the same way - conformance-checked) on a vector with room; the reallocation done by SVSetBase::xtend is not modelled (fixed capacity MATW, room is a precondition)",
  "LPRowSetBase/LPColSetBase::remove(int perm[]) MODEL (doRemoveRows/doRemoveCols): the renumbering contract proved in C19 (dataset) / lpset_remove: survivor m gets perm[m] = number of survivors before m (specification ghost cnt, defined cell by cell), removed keep their negative mark; the compaction of the own file itself is not modelled (the bodies do not look at it)",
  "representation invariant of the LP (legal sizes, stored indices < dimension, no index twice in a vector, files mirrored) is a PRECONDITION, instantiated only at the vectors the ghost cell and the operation touch",
  "ASSUMED on read inside loops under contract (doRemoveRow/Col, doRemoveRows/Cols): 0 <= size <= MATW of a cross vector when its SVector is handed out, and (doRemoveRows/Cols only) stored index < old dimension when an index is read; both are instances of the invariant that the same proof shows preserved at the arbitrary ghost vector, and each constrains only cells not yet rewritten by the operation",
  "isNotZero: real body (spxAbs(a) > eps); spxAbs on int = absolute value; epsilon() = arbitrary eps in [0, 2^30); changeElement: scale == false (scaleElement stub unused)",
  "two-base stub layout of README point 16; assert() compiled out (NDEBUG)"
 ],
 "instances":insts}
import os
json.dump(u, open(os.path.join(os.path.dirname(os.path.abspath(__file__)), "unit.json"), "w"), indent=1)
