/* Specification vocabulary for the two matrix copies of SPxLPBase (C contracts of unit lp_mirror).
 * A "file" (row file / column file) is a flat array of cells: vector v owns the MATW cells [v*MATW, v*MATW+MATW), of which the
 * first size[v] are in use.  The contracts see a file `m` as two parallel int arrays m_i (indices) and m_v (values) plus the size
 * array; the wrapper copies them into / out of an array of Nonzero cells {val, idx} (struct nzc below, the type the sliced
 * SVector bodies work on and the loop invariants name through the alias pointers gp_om / gp_cm).
 * Everything is written out for MATW == 3 cells (no quantifier, no loop). */
#ifndef MIRROR_SPEC_H
#define MIRROR_SPEC_H
#include "verif_c.h"
#ifndef CAP
#define CAP 4
#endif
#ifndef MATW
#define MATW 3
#endif
#if MATW != 3
#error "mirror_spec.h is written out for MATW == 3"
#endif
struct nzc { int val; int idx; };   /* = Nonzero<int> (member order conformance-checked) */
#define FILE_CELLS (CAP * MATW)
#define VALAT(m, v, p) (m##_v[(v) * MATW + (p)])
#define IDXAT(m, v, p) (m##_i[(v) * MATW + (p)])
#define USED(s, v, p) ((p) < (s)[v])
#define HIT(m, s, v, p, x) (USED(s, v, p) && IDXAT(m, v, p) == (x))
/* "vector v has an entry with index x" and its value (first match, as SVectorBase::pos) */
#define HAS(m, s, v, x) (HIT(m, s, v, 0, x) || HIT(m, s, v, 1, x) || HIT(m, s, v, 2, x))
#define VALOF(m, s, v, x) (HIT(m, s, v, 0, x) ? VALAT(m, v, 0) : HIT(m, s, v, 1, x) ? VALAT(m, v, 1) : VALAT(m, v, 2))
/* type invariants of an SVSet vector, instantiated at ONE vector v */
#define SIZEOK(s, v) (0 <= (s)[v] && (s)[v] <= MATW)
#define NODUP(m, s, v) (!(USED(s, v, 1) && IDXAT(m, v, 0) == IDXAT(m, v, 1)) && \
                        !(USED(s, v, 2) && (IDXAT(m, v, 0) == IDXAT(m, v, 2) || IDXAT(m, v, 1) == IDXAT(m, v, 2))))
#define INR(m, s, v, p, b) (!USED(s, v, p) || (0 <= IDXAT(m, v, p) && IDXAT(m, v, p) < (b)))
#define INRANGE(m, s, v, b) (INR(m, s, v, 0, b) && INR(m, s, v, 1, b) && INR(m, s, v, 2, b))
/* THE property: entry (a, b) with value v is in vector a of file A  <=>  it is in vector b of file B with the same value */
#define MIRROR(mA, sA, a, mB, sB, b) (HAS(mA, sA, a, b) == HAS(mB, sB, b, a) && \
                                      (!HAS(mA, sA, a, b) || VALOF(mA, sA, a, b) == VALOF(mB, sB, b, a)))
#endif
