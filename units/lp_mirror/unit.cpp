/* C06: "doAdd / doRemove / change* keep both matrix copies mirrored" - real bodies of SPxLPBase<R>::doRemoveRow(int),
 * doRemoveCol(int), changeElement(int,int,const R&,bool), doRemoveRows(int[]), doRemoveCols(int[]) (src/soplex/spxlpbase.h), R = int
 * (values are only copied and compared with zero).
 *
 * Storage model: each matrix copy ("file") is a flat array of Nonzero<int> cells; vector v owns the MATW cells
 * [v*MATW, v*MATW+MATW) and size[v] of them are in use, so two vectors of a file never overlap (by construction).
 * The sparse-vector operations the bodies use - pos, remove(n), add(n, idx[], val[]), index, value - are the REAL texts of
 * svectorbase.h (sliced), their loops completely unwound over the MATW <= 3 cells; only size()/set_size()/max() are stubs
 * (the size lives in the flat file instead of in the SVector object).
 * LPRowSetBase / LPColSetBase: the two-base layout of README point 16 (identical layout {LPShared* d}, methods through d only). */
#include "verif.h"
typedef int R;
#ifndef MATW
#define MATW 3
#endif
#ifndef CAP
#define CAP 4
#endif

extern "C" {
extern int g_rm_calls, g_rm_arg, g_rm_set, g_add_r, g_add_c, g_eps, g_sv, g_newnum;
extern const int* gp_cnt;
/* alias pointers for loop invariants (README point 6): own/cross file of the operation */
extern int *gp_om, *gp_os, *gp_cm, *gp_cs, *gp_perm;
extern int g_pos_i, g_pos_n; extern int* gp_pe;
}
/* SVSet type invariant "size <= max" of the vector a view is created for.  Only the instances whose loops carry loop
 * contracts define it as an assumption (the havocked cross vectors other than the ghost one need it); that it is preserved is
 * what those instances prove at the ghost vector (SIZEOK in every invariant and postcondition). */
#ifdef ASSUME_VIEW_SIZE
#define VIEW_SIZE_INVARIANT(n) __CPROVER_assume(0 <= (n) && (n) <= MATW)
#else
#define VIEW_SIZE_INVARIANT(n)
#endif

template <class RR> class Nonzero
{
public:
   RR val;
   int idx;
};

template <class T> struct SVectorBase
{
   Nonzero<T>* m_elem;
   int* usedp;      /* stub: memused lives in the flat file */
   int memsize;
   int size() const { return *usedp; }
   int max() const { return memsize; }
   void set_size(int s) { *usedp = s; }
   int index(int n) const
   {
      __CPROVER_assert(0 <= n && n < size(), "SVector position in bounds");
#include "SV_index.inc"
   }
   int& index(int n)
   {
      __CPROVER_assert(0 <= n && n < size(), "SVector position in bounds");
#include "SV_index_w.inc"
   }
   const T& value(int n) const
   {
      __CPROVER_assert(0 <= n && n < size(), "SVector position in bounds");
#include "SV_value.inc"
   }
   T& value(int n)
   {
      __CPROVER_assert(0 <= n && n < size(), "SVector position in bounds");
#include "SV_value_w.inc"
   }
   /* pos(i): the real body, hosted in a zero-argument member so that its loop can carry a loop contract (README point 1);
      the argument and the vector's cells/size are exported as ghosts for that invariant */
   int pos(int i) const { g_pos_i = i; g_pos_n = size(); gp_pe = (int*)m_elem; return pos0(); }
   int pos0() const
   {
      const int i = g_pos_i;
#include "SV_pos.inc"
   }
   void remove(int n)
   {
      __CPROVER_assert(0 <= n && n < size(), "SVector::remove position in bounds");
#include "SV_remove1.inc"
   }
   void add(int n, const int i[], const T v[])
   {
      __CPROVER_assert(n + size() <= max(), "SVector::add within max()");
#include "SV_addn.inc"
   }
};

struct LPShared
{
   int* rmem; int* rsize; int* nr;      /* row file, number of rows */
   int* cmem; int* csize; int* nc;      /* column file, number of columns */
   SVectorBase<R>* rpool; SVectorBase<R>* cpool;   /* the SVector objects (one per vector number), filled on demand */
};

/* The SVector objects of a file (one per vector number, as in the real SVSet) are set up by the wrapper before the body runs:
 * object i points at the cells [i*MATW, i*MATW+MATW) and at size[i]; view() hands out object i (bounds assertion added). */
static inline void init_views(SVectorBase<R>* pool, int* mem, int* size)
{
#define INIT_VIEW(i) pool[i].m_elem = (Nonzero<R>*)mem + (i) * MATW; pool[i].usedp = size + (i); pool[i].memsize = MATW;
   INIT_VIEW(0) INIT_VIEW(1) INIT_VIEW(2) INIT_VIEW(3)
#if CAP != 4
#error "init_views is written out for CAP == 4"
#endif
}
static inline SVectorBase<R>& view(SVectorBase<R>* pool, int* size, int num, int i)
{
   __CPROVER_assert(0 <= i && i < num, "vector number in bounds");
   VIEW_SIZE_INVARIANT(size[i]);
   return pool[i];
}

/* SVSetBase::remove(int n) + DataSet::remove(int): vector number n becomes the vector that had the last number (C19, unit dataset) */
static inline void remove_vec(int* mem, int* size, int* num, int n)
{
   __CPROVER_assert(0 <= n && n < *num, "remove(n): vector number in bounds");
   int last = *num - 1;
   if(n != last)
   {
      mem[2 * (n * MATW + 0)] = mem[2 * (last * MATW + 0)]; mem[2 * (n * MATW + 0) + 1] = mem[2 * (last * MATW + 0) + 1];
      mem[2 * (n * MATW + 1)] = mem[2 * (last * MATW + 1)]; mem[2 * (n * MATW + 1) + 1] = mem[2 * (last * MATW + 1) + 1];
      mem[2 * (n * MATW + 2)] = mem[2 * (last * MATW + 2)]; mem[2 * (n * MATW + 2) + 1] = mem[2 * (last * MATW + 2) + 1];
      size[n] = size[last];
   }
   *num = last;
}

/* SVSetBase/DataSet::remove(int perm[]) as proved in C19 (unit dataset) and used by unit lpset_remove: a survivor m gets
 * perm[m] = cnt[m] = number of survivors before m, removed ones keep their negative mark, num() = cnt[old num()].
 * (Only the renumbering is modelled: the body under contract does not look at the compacted own file.) */
static inline void remove_perm(int* num, int perm[])
{
#define STEP_PERM(m) if((m) < *num && perm[m] >= 0) perm[m] = gp_cnt[m];
   STEP_PERM(0) STEP_PERM(1) STEP_PERM(2) STEP_PERM(3)
#if CAP > 4
#error "remove_perm is written out for CAP <= 4"
#endif
   *num = gp_cnt[*num];
   g_newnum = *num;
}

template <class T> struct LPRowSetBase
{
   LPShared* d;
   int num() const { return *d->nr; }
   SVectorBase<T>& rowVector_w(int i) { return view(d->rpool, d->rsize, *d->nr, i); }
   const SVectorBase<T>& rowVector(int i) const { return view(d->rpool, d->rsize, *d->nr, i); }
   void remove(int j) { g_rm_calls++; g_rm_arg = j; g_rm_set = 0; remove_vec(d->rmem, d->rsize, d->nr, j); }
   void remove(int perm[]) { g_rm_calls++; g_rm_set = 0; remove_perm(d->nr, perm); }
   /* real: SVSetBase<R>::add2(rowVector_w(i), n, idx, val) = xtend(svec, size+n) [model: fixed capacity, asserted by add] + svec.add(n, idx, val) */
   void add2(int i, int n, const int idx[], const T val[]) { g_add_r++; view(d->rpool, d->rsize, *d->nr, i).add(n, idx, val); }
};
template <class T> struct LPColSetBase
{
   LPShared* d;
   int num() const { return *d->nc; }
   SVectorBase<T>& colVector_w(int i) { return view(d->cpool, d->csize, *d->nc, i); }
   const SVectorBase<T>& colVector(int i) const { return view(d->cpool, d->csize, *d->nc, i); }
   void remove(int j) { g_rm_calls++; g_rm_arg = j; g_rm_set = 1; remove_vec(d->cmem, d->csize, d->nc, j); }
   void remove(int perm[]) { g_rm_calls++; g_rm_set = 1; remove_perm(d->nc, perm); }
   void add2(int i, int n, const int idx[], const T val[]) { g_add_c++; view(d->cpool, d->csize, *d->nc, i).add(n, idx, val); }
};

static inline R spxAbs(R a) { return a < 0 ? -a : a; }
template <class A, class B> inline bool isNotZero(A a, B eps)
{
#include "isNotZero.inc"
}

struct Tolerances { R epsilon() const { return g_eps; } };
struct LP;
struct Scaler { R scaleElement(const LP& lp, int row, int col, R val) const { return g_sv; } };

struct LP : LPRowSetBase<R>, LPColSetBase<R>
{
   LPShared sh; bool _isScaled; Scaler* lp_scaler; Tolerances tol;
   void bind() { LPRowSetBase<R>::d = &sh; LPColSetBase<R>::d = &sh; }
   const Tolerances* tolerances() const { return (Tolerances*)&tol; }   /* cast: front end drops the const (README point 3) */
   bool isConsistent() const { return true; }
   bool isScaled() const { return _isScaled; }
   /* SPxLPBase's own one-line forwarders (spxlpbase.h: `return LPRowSetBase<R>::rowVector(i);` etc.) */
   int nRows() const { return *sh.nr; }
   int nCols() const { return *sh.nc; }
   const SVectorBase<R>& rowVector(int i) const { return view(sh.rpool, sh.rsize, *sh.nr, i); }
   const SVectorBase<R>& colVector(int i) const { return view(sh.cpool, sh.csize, *sh.nc, i); }
   SVectorBase<R>& rowVector_w(int i) { return view(sh.rpool, sh.rsize, *sh.nr, i); }
   SVectorBase<R>& colVector_w(int i) { return view(sh.cpool, sh.csize, *sh.nc, i); }
};

struct H : LP
{
   int i_, j_; R val_; bool scale_; int* perm_;
   void body()
   {
#if defined(INST_RM)
      int j = j_;
#elif defined(INST_CE)
      int i = i_; int j = j_; const R& val = val_; bool scale = scale_;
#elif defined(INST_PERM)
      int* perm = perm_;
#endif
#include SLICE
   }
};

static inline void setup(H& h, Scaler& sc, SVectorBase<R>* rpool, SVectorBase<R>* cpool,
                         int* rmem, int* rsize, int* nr, int* cmem, int* csize, int* nc)
{
   h.bind(); h._isScaled = nondet_bool(); h.lp_scaler = &sc;
   h.sh.rmem = rmem; h.sh.rsize = rsize; h.sh.nr = nr; h.sh.cmem = cmem; h.sh.csize = csize; h.sh.nc = nc;
   h.sh.rpool = rpool; h.sh.cpool = cpool;
   if(rmem) init_views(rpool, rmem, rsize);
   if(cmem) init_views(cpool, cmem, csize);
}

#if defined(INST_RM)
/* own = the file of the vector being removed (rows for doRemoveRow, columns for doRemoveCol), cross = the other file */
extern "C" void w_rm(int* om, int* os, int* cm, int* cs, int* nown, int* ncross, int j)
{
   VIN("nown", *nown); VIN("ncross", *ncross); VIN("j", j);
   H h; Scaler sc; SVectorBase<R> rpool[CAP], cpool[CAP];
#ifdef REMROW
   setup(h, sc, rpool, cpool, om, os, nown, cm, cs, ncross);
#else
   setup(h, sc, rpool, cpool, cm, cs, ncross, om, os, nown);
#endif
   h.j_ = j;
   gp_om = om; gp_os = os; gp_cm = cm; gp_cs = cs;
   h.body();
}
#elif defined(INST_CE)
extern "C" void w_ce(int* rmem, int* rsize, int* cmem, int* csize, int* nr, int* nc, int i, int j, int val, bool scale)
{
   VIN("nr", *nr); VIN("nc", *nc); VIN("i", i); VIN("j", j); VIN("val", val); VIN("eps", g_eps); VIN("scale", scale);
   H h; Scaler sc; SVectorBase<R> rpool[CAP], cpool[CAP];
   setup(h, sc, rpool, cpool, rmem, rsize, nr, cmem, csize, nc);
   h.i_ = i; h.j_ = j; h.val_ = val; h.scale_ = scale;
   h.body();
}
#elif defined(INST_PERM)
/* own = the set whose vectors are removed by perm; only its number and perm are touched by the model; cross = the file the body rewrites */
extern "C" void w_perm(int* cm, int* cs, int* nown, int* ncross, int* perm, const int* cnt)
{
   VIN("nown", *nown); VIN("ncross", *ncross); VIN_ARR8("perm", perm, *nown);
   H h; Scaler sc; SVectorBase<R> rpool[CAP], cpool[CAP];
   gp_cnt = cnt;
#ifdef REMROW
   setup(h, sc, rpool, cpool, 0, 0, nown, cm, cs, ncross);
#else
   setup(h, sc, rpool, cpool, cm, cs, ncross, 0, 0, nown);
#endif
   h.perm_ = perm;
   h.body();
}
#endif
