/* C06: "doAdd / doRemove / change* keep both matrix copies mirrored" - real bodies of SPxLPBase<R>::doRemoveRow(int),
 * doRemoveCol(int), changeElement(int,int,const R&,bool), doRemoveRows(int[]), doRemoveCols(int[]) (src/soplex/spxlpbase.h), R = int
 * (values are only copied and compared with zero / epsilon).
 *
 * Storage model: each matrix copy ("file") is a flat array of Nonzero cells {val, idx}; vector v owns the MATW cells
 * [v*MATW, v*MATW+MATW) and size[v] of them are in use, so two vectors of a file never overlap (by construction).
 * The sparse-vector operations the bodies use - pos, remove(n), add(i, v), index, value - are the REAL texts of svectorbase.h
 * (sliced); pos() sits in a zero-argument host so that its loop carries an inductive loop contract.  Only size()/set_size()/max()
 * are stubs (the size lives in the flat file instead of in the SVector object) and `m_elem` is the address of the vector's first cell.
 * LPRowSetBase / LPColSetBase: the two-base layout of README point 16 (identical layout {LPShared* d}, methods through d only). */
#include "verif.h"
typedef int R;
#ifndef MATW
#define MATW 3
#endif
#ifndef CAP
#define CAP 4
#endif
#if MATW != 3 || (CAP != 3 && CAP != 4)
#error "the straight-line copy code below is written out for MATW == 3, CAP == 3 or 4"
#endif
#if CAP > 3
#define IF_CAP4(x) x
#else
#define IF_CAP4(x)
#endif

extern "C" {
/* Nonzero<int>: a plain C struct so that the C contract / loop invariants and the C++ bodies work on ONE type (no byte-level casts) */
struct nzc { int val; int idx; };
extern int g_rm_calls, g_rm_arg, g_rm_set, g_add_r, g_add_c, g_eps, g_sv, g_newnum;
extern const int* gp_cnt;
/* alias pointers for loop invariants (README point 6): cells and sizes of the own / cross file of the operation */
extern struct nzc *gp_om, *gp_cm, *gp_pe; extern int *gp_os, *gp_cs, *gp_perm;
extern int g_pos_i, g_pos_n, g_n0;
}
/* SVSet type invariant "0 <= size <= max" of the vector a view is handed out for.  Only instances whose loops carry loop contracts
 * define it as an assumption (the havocked cross vectors other than the ghost one need it); that it is preserved is what those
 * instances prove at the arbitrary ghost vector (SIZEOK in every invariant and postcondition). */
#ifdef ASSUME_VIEW_SIZE
#define VIEW_SIZE_INVARIANT(n) __CPROVER_assume(0 <= (n) && (n) <= MATW)
#else
#define VIEW_SIZE_INVARIANT(n)
#endif

/* LP type invariant "stored indices < dimension" on READ of an index, only for the doRemoveRows/doRemoveCols instances (outer loop
 * under contract: the cells of the cross vectors other than the ghost one are havocked).  Every cell is read before it is rewritten
 * there, so the assumption only ever constrains not-yet-processed cells, for which the invariant states it at the ghost vector. */
#ifdef ASSUME_INDEX_RANGE
#define INDEX_READ_INVARIANT(v) __CPROVER_assume(0 <= (v) && (v) < g_n0)
#else
#define INDEX_READ_INVARIANT(v)
#endif

template <class T> struct SVectorBase
{
   /* stub data: the file's cell array and size array (the same two base pointers in every vector of a file) and the vector's number */
   nzc* elem0; int* size0; int vno;
   int memsize;
#define m_elem (elem0 + vno * MATW)
   int size() const { return size0[vno]; }
   int max() const { return memsize; }
   void set_size(int s) { size0[vno] = s; }
   int index(int n) const
   {
      __CPROVER_assert(0 <= n && n < size(), "SVector position in bounds");
      INDEX_READ_INVARIANT(m_elem[n].idx);
#include "SV_index.inc"
   }
   int& index(int n)
   {
      __CPROVER_assert(0 <= n && n < size(), "SVector position in bounds");
      INDEX_READ_INVARIANT(m_elem[n].idx);
#include "SV_index_w.inc"
   }
   const T& value(int n) const
   {
      __CPROVER_assert(0 <= n && n < size(), "SVector position in bounds");
#include "SV_value.inc"
   }
   T& value(int n)
   {
      __CPROVER_assert(0 <= n && n < size(), "SVector position in bounds");
#include "SV_value_w.inc"
   }
   /* pos(i): the real body, hosted in a zero-argument member so that its loop can carry a loop contract (README point 1);
      the argument and the vector's cells/size are exported as ghosts for that invariant */
   int pos(int i) const { g_pos_i = i; g_pos_n = size(); gp_pe = m_elem; return pos0(); }
   int pos0() const
   {
      const int i = g_pos_i;
#include "SV_pos.inc"
   }
   void remove(int n)
   {
      __CPROVER_assert(0 <= n && n < size(), "SVector::remove position in bounds");
#include "SV_remove1.inc"
   }
   void add(int i, const T& v)
   {
      __CPROVER_assert(size() < max(), "SVector::add within max()");
#include "SV_add1.inc"
   }
};

struct LPShared
{
   nzc* rmem; int* rsize; int* nr;      /* row file, number of rows */
   nzc* cmem; int* csize; int* nc;      /* column file, number of columns */
   SVectorBase<R>* rpool; SVectorBase<R>* cpool;   /* the SVector objects, one per vector number (as in the real SVSet) */
};

/* The SVector objects of a file are set up by the wrapper before the body runs: object i stands for the cells
 * [i*MATW, i*MATW+MATW) and size[i]; view() hands out object i (bounds assertion added). */
static inline void init_views(SVectorBase<R>* pool, nzc* mem, int* size)
{
#define INIT_VIEW(i) pool[i].elem0 = mem; pool[i].size0 = size; pool[i].vno = (i); pool[i].memsize = MATW;
   INIT_VIEW(0) INIT_VIEW(1) INIT_VIEW(2) IF_CAP4(INIT_VIEW(3))
}
static inline SVectorBase<R>& view(SVectorBase<R>* pool, int* size, int num, int i)
{
   __CPROVER_assert(0 <= i && i < num, "vector number in bounds");
   VIEW_SIZE_INVARIANT(size[i]);
   return pool[i];
}

/* SVSetBase::remove(int n) + DataSet::remove(int): vector number n becomes the vector that had the last number (C19, unit dataset) */
static inline void remove_vec(nzc* mem, int* size, int* num, int n)
{
   __CPROVER_assert(0 <= n && n < *num, "remove(n): vector number in bounds");
   int last = *num - 1;
   if(n != last)
   {
      mem[n * MATW + 0] = mem[last * MATW + 0]; mem[n * MATW + 1] = mem[last * MATW + 1]; mem[n * MATW + 2] = mem[last * MATW + 2];
      size[n] = size[last];
   }
   *num = last;
}

/* SVSetBase/DataSet::remove(int perm[]) as proved in C19 (unit dataset) and used by unit lpset_remove: a survivor m gets
 * perm[m] = cnt[m] = number of survivors before m, removed ones keep their negative mark, num() = cnt[old num()].
 * (Only the renumbering is modelled: the body under contract does not look at the compacted own file.) */
static inline void remove_perm(int* num, int perm[])
{
#define STEP_PERM(m) if((m) < *num && perm[m] >= 0) perm[m] = gp_cnt[m];
   STEP_PERM(0) STEP_PERM(1) STEP_PERM(2) IF_CAP4(STEP_PERM(3))
   *num = gp_cnt[*num];
   g_newnum = *num;
}

/* real add2: SVSetBase<R>::add2(vector_w(i), n, idx, val) = xtend(svec, size+n) [model: fixed capacity MATW, room asserted by add]
 * + svec.add(n, idx, val), which for n == 1 is add(idx[0], val[0]) (real body of add(int, const R&); the n-ary add runs the same
 * three statements per nonzero - conformance-checked) */
static inline void add2_one(SVectorBase<R>& v, int n, const int idx[], const R val[])
{
   __CPROVER_assert(n == 1, "add2 model: one nonzero at a time");
   v.add(idx[0], val[0]);
}

template <class T> struct LPRowSetBase
{
   LPShared* d;
   int num() const { return *d->nr; }
   SVectorBase<T>& rowVector_w(int i) { return view(d->rpool, d->rsize, *d->nr, i); }
   const SVectorBase<T>& rowVector(int i) const { return view(d->rpool, d->rsize, *d->nr, i); }
   void remove(int j) { g_rm_calls++; g_rm_arg = j; g_rm_set = 0; remove_vec(d->rmem, d->rsize, d->nr, j); }
   void remove(int perm[]) { g_rm_calls++; g_rm_set = 0; remove_perm(d->nr, perm); }
   void add2(int i, int n, const int idx[], const T val[]) { g_add_r++; add2_one(view(d->rpool, d->rsize, *d->nr, i), n, idx, val); }
};
template <class T> struct LPColSetBase
{
   LPShared* d;
   int num() const { return *d->nc; }
   SVectorBase<T>& colVector_w(int i) { return view(d->cpool, d->csize, *d->nc, i); }
   const SVectorBase<T>& colVector(int i) const { return view(d->cpool, d->csize, *d->nc, i); }
   void remove(int j) { g_rm_calls++; g_rm_arg = j; g_rm_set = 1; remove_vec(d->cmem, d->csize, d->nc, j); }
   void remove(int perm[]) { g_rm_calls++; g_rm_set = 1; remove_perm(d->nc, perm); }
   void add2(int i, int n, const int idx[], const T val[]) { g_add_c++; add2_one(view(d->cpool, d->csize, *d->nc, i), n, idx, val); }
};

static inline R spxAbs(R a) { return a < 0 ? -a : a; }
template <class A, class B> inline bool isNotZero(A a, B eps)
{
#include "isNotZero.inc"
}

struct Tolerances { R epsilon() const { return g_eps; } };
struct LP;
struct Scaler { R scaleElement(const LP& lp, int row, int col, R val) const { return g_sv; } };

struct LP : LPRowSetBase<R>, LPColSetBase<R>
{
   LPShared sh; bool _isScaled; Scaler* lp_scaler; Tolerances tol;
   void bind() { LPRowSetBase<R>::d = &sh; LPColSetBase<R>::d = &sh; }
   const Tolerances* tolerances() const { return (Tolerances*)&tol; }   /* cast: front end drops the const (README point 3) */
   bool isConsistent() const { return true; }
   bool isScaled() const { return _isScaled; }
   /* SPxLPBase's own one-line forwarders (spxlpbase.h: `return LPRowSetBase<R>::rowVector(i);` etc.) */
   int nRows() const { return *sh.nr; }
   int nCols() const { return *sh.nc; }
   const SVectorBase<R>& rowVector(int i) const { return view(sh.rpool, sh.rsize, *sh.nr, i); }
   const SVectorBase<R>& colVector(int i) const { return view(sh.cpool, sh.csize, *sh.nc, i); }
   SVectorBase<R>& rowVector_w(int i) { return view(sh.rpool, sh.rsize, *sh.nr, i); }
   SVectorBase<R>& colVector_w(int i) { return view(sh.cpool, sh.csize, *sh.nc, i); }
};

struct H : LP
{
   int i_, j_; R val_; bool scale_; int* perm_;
   void body()
   {
#if defined(INST_RM)
      int j = j_;
#elif defined(INST_CE)
      int i = i_; int j = j_; const R& val = val_; bool scale = scale_;
#elif defined(INST_PERM)
      int* perm = perm_;
#endif
#include SLICE
   }
};

/* copy a file between the contract's parallel arrays and the cell array (straight-line, CAP*MATW cells) */
#define CELL_IN(k) cells[k].idx = fi[k]; cells[k].val = fv[k];
#define CELL_OUT(k) fi[k] = cells[k].idx; fv[k] = cells[k].val;
#define ALL12(S) S(0) S(1) S(2) S(3) S(4) S(5) S(6) S(7) S(8) IF_CAP4(S(9) S(10) S(11))
static inline void file_in(nzc* cells, const int* fi, const int* fv) { ALL12(CELL_IN) }
static inline void file_out(const nzc* cells, int* fi, int* fv) { ALL12(CELL_OUT) }

static inline void setup(H& h, Scaler& sc, SVectorBase<R>* rpool, SVectorBase<R>* cpool,
                         nzc* rmem, int* rsize, int* nr, nzc* cmem, int* csize, int* nc)
{
   h.bind(); h._isScaled = nondet_bool(); h.lp_scaler = &sc;
   h.sh.rmem = rmem; h.sh.rsize = rsize; h.sh.nr = nr; h.sh.cmem = cmem; h.sh.csize = csize; h.sh.nc = nc;
   h.sh.rpool = rpool; h.sh.cpool = cpool;
   if(rmem) init_views(rpool, rmem, rsize);
   if(cmem) init_views(cpool, cmem, csize);
}

#if defined(INST_RM)
/* own = the file of the vector being removed (rows for doRemoveRow, columns for doRemoveCol), cross = the other file */
extern "C" void w_rm(int* om_i, int* om_v, int* os, int* cm_i, int* cm_v, int* cs, int* nown, int* ncross, int j)
{
   VIN("nown", *nown); VIN("ncross", *ncross); VIN("j", j);
   H h; Scaler sc; SVectorBase<R> rpool[CAP], cpool[CAP]; nzc ocells[CAP * MATW], ccells[CAP * MATW];
   file_in(ocells, om_i, om_v); file_in(ccells, cm_i, cm_v);
#ifdef REMROW
   setup(h, sc, rpool, cpool, ocells, os, nown, ccells, cs, ncross);
#else
   setup(h, sc, rpool, cpool, ccells, cs, ncross, ocells, os, nown);
#endif
   h.j_ = j;
   gp_om = ocells; gp_os = os; gp_cm = ccells; gp_cs = cs;
   h.body();
   file_out(ocells, om_i, om_v); file_out(ccells, cm_i, cm_v);
}
#elif defined(INST_CE)
extern "C" void w_ce(int* rm_i, int* rm_v, int* rs, int* cm_i, int* cm_v, int* cs, int* nr, int* nc, int i, int j, int val, bool scale)
{
   VIN("nr", *nr); VIN("nc", *nc); VIN("i", i); VIN("j", j); VIN("val", val); VIN("eps", g_eps); VIN("scale", scale);
   H h; Scaler sc; SVectorBase<R> rpool[CAP], cpool[CAP]; nzc rcells[CAP * MATW], ccells[CAP * MATW];
   file_in(rcells, rm_i, rm_v); file_in(ccells, cm_i, cm_v);
   setup(h, sc, rpool, cpool, rcells, rs, nr, ccells, cs, nc);
   h.i_ = i; h.j_ = j; h.val_ = val; h.scale_ = scale;
   gp_om = rcells; gp_os = rs; gp_cm = ccells; gp_cs = cs;
   h.body();
   file_out(rcells, rm_i, rm_v); file_out(ccells, cm_i, cm_v);
}
#elif defined(INST_PERM)
/* own = the set whose vectors are removed by perm (only its number and perm are touched by the model); cross = the file the body rewrites */
extern "C" void w_perm(int* cm_i, int* cm_v, int* cs, int* nown, int* ncross, int* perm, const int* cnt)
{
   VIN("nown", *nown); VIN("ncross", *ncross); VIN_ARR8("perm", perm, *nown);
   H h; Scaler sc; SVectorBase<R> rpool[CAP], cpool[CAP]; nzc ccells[CAP * MATW];
   file_in(ccells, cm_i, cm_v);
   gp_cnt = cnt; gp_perm = perm;
#ifdef REMROW
   setup(h, sc, rpool, cpool, 0, 0, nown, ccells, cs, ncross);
#else
   setup(h, sc, rpool, cpool, ccells, cs, ncross, 0, 0, nown);
#endif
   h.perm_ = perm;
   gp_cm = ccells; gp_cs = cs;
   h.body();
   file_out(ccells, cm_i, cm_v);
}
#endif
