/* C19 (second sentence): DSVectorBase<R> (src/soplex/dsvectorbase.h, basevectors.h) - the dynamic sparse vector: add(i, v),
 * add(SVectorBase), operator=(SVectorBase), operator=(VectorBase), setMax, makeMem.  Real bodies on the real SVectorBase
 * bodies (stubs/sparse_alg.h hosts).  R = Ring, but no ring operation is executed here: values are only copied and
 * compared with 0.  spx_alloc / spx_realloc / spx_free: the real ones minus the out-of-memory exception; realloc = malloc of
 * the new size + copy of the common prefix + free of the old block (cell-wise loop, unwound).
 * setMax: the `DSVectorBase<Real>` specialisation (spx_realloc; the one every Real LP runs).  The generic template body
 * (spx_alloc + placement-new copy + explicit `theelem[i].~Nonzero<R>()` calls + spx_free) cannot be compiled by goto-cc
 * ("symbol '~Nonzero' is unknown" for the template-id destructor name): not covered. */
#define WANT_SV_BULK
#include "sparse_alg.h"

extern "C" {
void* malloc(size_t);
void free(void*);
#ifdef EXACT_ALLOC
#define VERIF_NEWSIZE(n) (n)
#else
#define VERIF_NEWSIZE(n) ((2 * CAP + 2) * sizeof(long long))
#endif
void* verif_realloc(void* p, size_t n)
{
   __CPROVER_assert(n % sizeof(long long) == 0 && 0 < n, "realloc model: whole Nonzero cells");
   long long* q = (long long*)malloc(VERIF_NEWSIZE(n));
   __CPROVER_assume(q != 0);
   size_t old = __CPROVER_OBJECT_SIZE(p);
   size_t m = (old < n ? old : n) / sizeof(long long);
   for(size_t i = 0; i < m; ++i)
      q[i] = ((const long long*)p)[i];
   free(p);
   return q;
}
}
#define realloc(p, n) verif_realloc((p), (n))
template <class PT> inline void spx_alloc(PT& p, int n = 1)
{
   if(n == 0) n = 1;
   p = (PT)(malloc(VERIF_NEWSIZE(sizeof(*p) * (unsigned int) n)));
   __CPROVER_assume(p != 0);          /* the real one throws SPxMemoryException */
}
template <class PT> inline void spx_realloc(PT& p, int n)
{
   PT pp;
   if(n == 0) n = 1;
   pp = (PT)(realloc(p, sizeof(*p) * (unsigned int) n));
   __CPROVER_assume(pp != 0);         /* the real one throws SPxMemoryException */
   p = pp;
}
template <class PT> inline void spx_free(PT& p)
{
   free(p);
   p = 0;
}

struct DSVec : SVectorBase<R>
{
   typedef R S;
   Nonzero<R>* theelem;

   void setMax(int newmax = 1)
   {
#include "DSV_setMax_real.inc"
   }
   void makeMem(int n)
   {
#include "DSV_makeMem.inc"
   }
   void add(int i, const R& v)
   {
#include "DSV_add.inc"
   }
   void add(const SVectorBase<S>& vec)
   {
#include "DSV_addSV.inc"
   }
   DSVec& operator=(const SVectorBase<S>& vec)
   {
#include "DSV_assignSV.inc"
   }
   DSVec& operator=(const VectorBase<S>& vec)
   {
#include "DSV_assignVB.inc"
   }
   bool isConsistent() const { return true; }
};

/* op 0: add(a, bv)   1: add(b)   2: *this = b   3: *this = w (dense)   4: setMax(a)   5: makeMem(a) */
extern "C" long long* w_ds(long long* elem, int* memsize, int* memused, int op, int a, int bv,
                           long long* b, int bmax, int* bused, int* w, int dim)
{
   VIN("memsize", *memsize); VIN("memused", *memused); VIN("op", op); VIN("a", a); VIN("bv", bv); VIN("bused", *bused); VIN("dim", dim);
   DSVec s; s.theelem = (Nonzero<R>*)elem; s.m_elem = s.theelem; s.memsize = *memsize; s.memused = *memused;
   SVectorBase<R> sb; sb.m_elem = (Nonzero<R>*)b; sb.memsize = bmax; sb.memused = *bused;
   VectorBase<R> wv; wv.val.p = (R*)w; wv.val.n = dim;
   R vr; vr.v = bv;
#if OP == 0
   s.add(a, vr);
#elif OP == 1
   s.add(sb);
#elif OP == 2
   s = sb;
#elif OP == 3
   s = wv;
#elif OP == 4
   s.setMax(a);
#elif OP == 5
   s.makeMem(a);
#endif
   __CPROVER_assert(s.theelem == s.m_elem, "DSVectorBase: theelem == mem()");
   *memsize = s.memsize; *memused = s.memused; *bused = sb.memused;
   return (long long*)s.m_elem;
}
