/* Contracts for DSVectorBase<R> (C19: dynamic sparse vector; "growing keeps the content", assignment / sparsification give
 * the dense values).  w_ds(elem, &max, &size, ..) returns the (possibly re-allocated) nonzero block.  Class invariant:
 * theelem == mem() (asserted in the wrapper), 0 <= size() <= max(), the block has max(1, max()) cells.
 * Ghosts: g_q position in the old vector, g_k dense index, g_r position in the operand b. */
#include "verif_c.h"
#ifndef CAP
#define CAP 6
#endif
#include "rep.h"
int g_k, g_p, v_g, g_q, g_r, g_s0, g_m0, g_bsize; long long v_cell, v_cellb;
#include "sparse_alg_c.h"
#define RET __CPROVER_return_value
#ifdef EXACT_ALLOC
/* memory-safety twin: the block has exactly max(1, max()) cells, realloc / malloc return exactly the requested size;
 * only the shape postcondition is stated */
#define ALLOC_N ((*memsize > 1 ? *memsize : 1))
#define ENSURES(e) __CPROVER_ensures(1)
#else
#define ALLOC_N CAP
#define ENSURES(e) __CPROVER_ensures(e)
#endif
#define P_BOCC(k)   (!((k) < *bused) || ((IDX(b, k) == g_k) == ((k) == g_p)))
#define PAIR_B(i, j) (!((i) < (j) && (j) < *bused) || IDX(b, i) != IDX(b, j))
#define ROW_B(i) REP_ALLB(PAIR_B, i)
#define MAX2(a, b) ((a) > (b) ? (a) : (b))

long long* w_ds(long long* elem, int* memsize, int* memused, int op, int a, int bv, long long* b, int bmax, int* bused, int* w, int dim)
__CPROVER_requires(__CPROVER_is_fresh(memsize, sizeof(int)) && __CPROVER_is_fresh(memused, sizeof(int)) && 0 <= *memsize && *memsize <= CAP
   && 0 <= *memused && *memused <= *memsize && __CPROVER_is_fresh(elem, ALLOC_N * sizeof(long long)))
__CPROVER_requires(__CPROVER_is_fresh(bused, sizeof(int)) && SVWF(b, bmax, *bused) && DVWF(w, dim))
__CPROVER_requires(g_s0 == *memused && g_m0 == *memsize && g_bsize == *bused)
__CPROVER_requires((!(0 <= g_q && g_q < *memused) || v_cell == elem[g_q]) && (!(0 <= g_r && g_r < *bused) || v_cellb == b[g_r]))
#if OP == 0
/* add(i, v): room is made for one more nonzero (growth to exactly size()+1 if there is none), every old nonzero keeps
 * its position, (i, v) is appended iff v != 0 */
__CPROVER_requires(1)
#define POST_SIZE (g_s0 + (bv != 0 ? 1 : 0))
#define POST_MAX  (g_m0 - g_s0 < 1 ? g_s0 + 1 : g_m0)
#define KEEP_OLD 1
#elif OP == 1
/* add(const SVectorBase& vec), documented "Append nonzeros of sv" */
REQ_EACH(ROW_B)
#ifdef AS_DOCUMENTED
#define POST_SIZE (g_s0 + SNNZ(b, g_bsize))
#define KEEP_OLD 1
#else
/* what the body does: clear() first, i.e. an ASSIGNMENT of the nonzeros of vec */
__CPROVER_requires(-1 <= g_p && g_p < *bused && v_g == (g_p < 0 ? 0 : VAL(b, g_p)))
REQ_EACH(P_BOCC)
#define POST_SIZE SNNZ(b, g_bsize)
#define POST_MAX  (g_m0 < g_bsize ? g_bsize : g_m0)
#define KEEP_OLD 0
#define POST_DENSE
#endif
#elif OP == 2
/* *this = vec (sparse): the dense views agree at every index, exactly the nonzeros of vec are stored */
REQ_EACH(ROW_B)
__CPROVER_requires(-1 <= g_p && g_p < *bused && v_g == (g_p < 0 ? 0 : VAL(b, g_p)))
REQ_EACH(P_BOCC)
#define POST_SIZE SNNZ(b, g_bsize)
#define POST_MAX  (g_m0 < g_bsize ? g_bsize : g_m0)
#define KEEP_OLD 0
#define POST_DENSE
#elif OP == 3
/* *this = vec (dense): sparsification - exactly the nonzeros of vec, each once; max() == vec.dim() */
__CPROVER_requires(0 <= g_k && g_k < dim && v_g == w[g_k])
#define POST_SIZE DNNZ(w, dim)
#define POST_MAX  dim
#define KEEP_OLD 0
#define POST_DENSE
#elif OP == 4
/* setMax(newmax): max() == max(newmax, size()), content kept */
__CPROVER_requires(-CAP <= a && a <= 2 * CAP)
#define POST_SIZE g_s0
#define POST_MAX  MAX2(a, g_s0)
#define KEEP_OLD 1
#elif OP == 5
/* makeMem(n): afterwards max() - size() >= n; grows to exactly size() + n only when needed; content kept */
__CPROVER_requires(0 <= a && a <= CAP)
#define POST_SIZE g_s0
#define POST_MAX  (g_m0 - g_s0 < a ? g_s0 + a : g_m0)
#define KEEP_OLD 1
#endif
__CPROVER_assigns(*memsize, *memused, *bused, __CPROVER_object_whole(elem))
__CPROVER_frees(elem)
__CPROVER_ensures(0 <= *memused && *memused <= *memsize && __CPROVER_rw_ok(RET, (*memsize > 1 ? *memsize : 1) * sizeof(long long)))
ENSURES(*memused == POST_SIZE)
#ifdef POST_MAX
ENSURES(*memsize == POST_MAX)
#endif
ENSURES(!KEEP_OLD || !(0 <= g_q && g_q < g_s0) || RET[g_q] == v_cell)
#if OP == 0
ENSURES(bv == 0 || (IDX(RET, g_s0) == a && VAL(RET, g_s0) == bv))
ENSURES(!(g_m0 - g_s0 >= 1) || RET == elem)
#endif
#ifdef POST_DENSE
ENSURES(SDENSE(RET, *memused, g_k) == v_g)
ENSURES(!(0 <= g_q && g_q < *memused) || VAL(RET, g_q) != 0)
#endif
#if OP == 3
ENSURES(!(0 <= g_q && g_q < g_r && g_r < *memused) || IDX(RET, g_q) != IDX(RET, g_r))
ENSURES(w[g_k] == v_g)
#else
ENSURES(*bused == g_bsize && (!(0 <= g_r && g_r < g_bsize) || b[g_r] == v_cellb))
#endif
;
void h_ds(void)
{
   long long* elem; int* memsize; int* memused; int op, a, bv; long long* b; int bmax; int* bused; int* w; int dim;
   g_k = nondet_int(); g_p = nondet_int(); v_g = nondet_int(); g_q = nondet_int(); g_r = nondet_int(); g_s0 = nondet_int();
   g_m0 = nondet_int(); g_bsize = nondet_int(); v_cell = nondet_ll(); v_cellb = nondet_ll();
   w_ds(elem, memsize, memused, op, a, bv, b, bmax, bused, w, dim);
   CANARY();
}
