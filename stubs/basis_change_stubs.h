/* Stub environment for units/basis_change (C04): the basis-maintenance hooks of spxchangebasis.hpp
 * (SPxBasisBase<R>::addedRows/addedCols/removedRow/removedCol/removedRows/removedCols/changedRow/changedCol/
 * changedElement, with their callees reDim, invalidate, restoreInitialBasis, setStatus, Desc::reSize).
 *
 * Why not stubs/basis_stubs.h: the hooks RESIZE the descriptor and the id array (DataArray::reSize, Desc::reSize),
 * ASSIGN ids (baseId(i) = rId(i)), and make qualified calls theLP->SPxLPBase<R>::rId(i); the skeletons of
 * basis_stubs.h have no reSize, a by-value baseId and no rId/cId/has in SPxLPBase, and may not be modified.  This
 * header keeps the same slice names (Desc_*.inc, dualRowStatus.inc, Solver_*.inc ...), the same extracted
 * enumerations and the same C-side specification (basis_spec_c.h), so that the units compose.
 *
 * Class layout.  In the tree  SPxSolverBase : SPxLPBase, SPxBasisBase  and  theLP == this.  The hooks use theLP only
 * through LP / solver methods (nRows nCols lhs rhs lower upper maxObj rId cId has vector rep dim isBasic), never
 * through its basis part, so here  SPxSolverBase<T> : SPxLPBase<T>  (single inheritance, README 16) and
 * SPxBasisBase<T> is a separate base-free class whose theLP points to a solver object.
 *
 * REAL (sliced from the tree on every run): the enumerations; Desc::nRows/nCols/rowStatus/colStatus/reSize;
 * SPxBasisBase::status/setStatus/baseId/dualRowStatus/dualColStatus/reDim/invalidate/restoreInitialBasis;
 * SPxSolverBase::rep/dim/isBasic; primalColStatus.
 * STUB (listed under "trusted", conformance-checked): DataArray (capacity-checked reSize), VectorBase, DataKey/SPxId/
 * SPxRowId/SPxColId, SPxLPBase (four bound arrays, objective, row/column key arrays, has()), loadMatrixVecs.
 * Automatic objects only, no destructors, no virtuals. */
#ifndef BASIS_CHANGE_STUBS_H
#define BASIS_CHANGE_STUBS_H
#include "verif.h"
#include "constants.h"

/* BASEID_READ_HOOK(ids, n): optional type-invariant hook executed on every element access of a DataArray<SPxId> */
#ifndef BASEID_READ_HOOK
#define BASEID_READ_HOOK(data, n)
#endif

/* DataArray: pointer + size + capacity.  reSize() of the real class reallocates when the capacity is exceeded and
 * keeps the first min(old,new) elements; no heap under dfcc, so the wrapper provides the storage and the stub ASSERTS
 * that the requested size fits (an obligation, not an assumption).  Elements beyond the old size keep whatever
 * the storage holds (arbitrary: the wrapper's arrays are unconstrained), which over-approximates "uninitialised". */
template <class T>
struct DataArray
{
   T* data; int thesize; int themax;
   int size() const { return thesize; }
   T& operator[](int n) { __CPROVER_assert(0 <= n && n < thesize, "DataArray index in bounds"); return data[n]; }
   const T& operator[](int n) const { __CPROVER_assert(0 <= n && n < thesize, "DataArray index in bounds"); return data[n]; }
   void reSize(int newsize)
   {
      __CPROVER_assert(0 <= newsize && newsize <= themax, "DataArray::reSize within the storage provided by the wrapper");
      thesize = newsize;
   }
};

/* the descriptor's DataArray<Status>: same model plus the TYPE INVARIANT "holds values within the enumeration's value
 * range [-16,15]" on every element access (isBasic() multiplies the status by rep(): overflow check), as in basis_stubs.h */
template <class E>
struct StatusArray
{
   E* data; int thesize; int themax;
   int size() const { return thesize; }
   E& operator[](int n)
   {
      __CPROVER_assert(0 <= n && n < thesize, "DataArray<Status> index in bounds");
      __CPROVER_assume(-16 <= (int)data[n] && (int)data[n] <= 15);
      return data[n];
   }
   const E& operator[](int n) const
   {
      __CPROVER_assert(0 <= n && n < thesize, "DataArray<Status> index in bounds");
      __CPROVER_assume(-16 <= (int)data[n] && (int)data[n] <= 15);
      return data[n];
   }
   void reSize(int newsize)
   {
      __CPROVER_assert(0 <= newsize && newsize <= themax, "DataArray::reSize within the storage provided by the wrapper");
      thesize = newsize;
   }
};

template <class T>
struct VectorBase
{
   T* val; int dimen;
   int dim() const { return dimen; }
   T& operator[](int n) { __CPROVER_assert(0 <= n && n < dimen, "VectorBase index in bounds"); return val[n]; }
   const T& operator[](int n) const { __CPROVER_assert(0 <= n && n < dimen, "VectorBase index in bounds"); return val[n]; }
};

typedef double Real;
static const Real infinity = VERIF_SOPLEX_INFINITY;      /* spxdefines.cpp (conformance-checked), value from the tree */

#define SPX_MSG_ERROR(x)
#define SPX_MSG_INFO3(a, b)
struct SPxInternalCodeException { SPxInternalCodeException(const char*) {} };
/* SPxOut::debug(this, fmt, args...) -> no-op (README 17) */
struct SPxOut { static void verif_debug_sink() {} };
#define debug(...) verif_debug_sink()
#define throw VERIF_THROW() (void)

/* ids.  Real (spxid.h, datakey.h): SPxId / SPxRowId / SPxColId derive from DataKey {info, idx}; info < 0 marks a row id,
 * info > 0 a column id, idx is the KEY of the row/column, which stays fixed while rows/columns are added or removed
 * (conformance-checked).  The hooks treat ids as opaque tokens (isSPxRowId/isSPxColId, conversion, assignment, has(),
 * vector()), so the stub packs both fields into ONE int:  code = -(key+1) for a row id, +(key+1) for a column id,
 * 0 = invalid.  (A two-field struct laid over the wrapper's int array makes the SAT problem explode.) */
struct SPxId;
struct SPxRowId { int code; SPxRowId() {} explicit SPxRowId(const SPxId& p_key); };
struct SPxColId { int code; SPxColId() {} explicit SPxColId(const SPxId& p_key); };
struct SPxId
{
   int code;
   SPxId() {}
   SPxId& operator=(const SPxRowId& rid) { code = rid.code; return *this; }
   SPxId& operator=(const SPxColId& cid) { code = cid.code; return *this; }
   bool isSPxRowId() const { return code < 0; }
   bool isSPxColId() const { return code > 0; }
};
/* real: asserts that the id has the right type and copies the key */
inline SPxRowId::SPxRowId(const SPxId& p_key) { code = p_key.code; }
inline SPxColId::SPxColId(const SPxId& p_key) { code = p_key.code; }

template <class T> struct SVectorBase { int unused; };

/* The LP after the modification.  rowKey[i] / colKey[i]: id code of the row / column at position i.
 * goneRow / goneCol: the id code of the row / column the LP has just removed (removedRow / removedCol), 0 otherwise.
 * has(id): the id names a row/column of the LP.  TYPE INVARIANT (listed under "trusted"): every id the basis stores
 * named a row/column before the modification, so it still does unless it is the removed one. */
template <class T> struct SPxLPBase
{
   typedef T R;
   VectorBase<T> left, right, low, up, objc;
   int* rowKey; int* colKey; int goneRow; int goneCol;    /* all in id-code form */
   int nRows() const { return left.dimen; }
   int nCols() const { return low.dimen; }
   const T& lhs(int i) const { return (*(VectorBase<T>*)&left)[i]; }
   const T& rhs(int i) const { return (*(VectorBase<T>*)&right)[i]; }
   const T& lower(int i) const { return (*(VectorBase<T>*)&low)[i]; }
   const T& upper(int i) const { return (*(VectorBase<T>*)&up)[i]; }
   const T& maxObj(int i) const { return (*(VectorBase<T>*)&objc)[i]; }
   SPxRowId rId(int n) const
   {
      __CPROVER_assert(0 <= n && n < left.dimen, "rId: row number in range");
      SPxRowId id; id.code = rowKey[n]; return id;
   }
   SPxColId cId(int n) const
   {
      __CPROVER_assert(0 <= n && n < low.dimen, "cId: column number in range");
      SPxColId id; id.code = colKey[n]; return id;
   }
   bool has(const SPxRowId& id) const { return id.code != goneRow; }
   bool has(const SPxColId& id) const { return id.code != goneCol; }
};

template <class T> struct SPxSolverBase;

template <class T> struct SPxBasisBase
{
   typedef T R;
#include "SPxBasis_SPxStatus.inc"
   struct Desc
   {
#include "Desc_Status.inc"
      StatusArray<Status> rowstat;      /* DataArray < Status > rowstat, colstat (conformance-checked) */
      StatusArray<Status> colstat;
      StatusArray<Status>* stat;
      StatusArray<Status>* costat;
      int nCols() const
      {
#include "Desc_nCols.inc"
      }
      int nRows() const
      {
#include "Desc_nRows.inc"
      }
      Status& rowStatus(int i)
      {
#include "Desc_rowStatus_w.inc"
      }
      Status rowStatus(int i) const
      {
#include "Desc_rowStatus_r.inc"
      }
      Status& colStatus(int i)
      {
#include "Desc_colStatus_w.inc"
      }
      Status colStatus(int i) const
      {
#include "Desc_colStatus_r.inc"
      }
      /* Desc::reSize(int rowDim, int colDim) has two loops; loop contracts need a zero-argument member (README 1), so the
       * real body runs in reSize_body() with its two parameters bound from members */
      int p_rowDim, p_colDim;
      void reSize_body()
      {
         int rowDim = p_rowDim; int colDim = p_colDim;
#include "Desc_reSize.inc"
      }
      void reSize(int rowDim, int colDim) { p_rowDim = rowDim; p_colDim = colDim; reSize_body(); }
   };

   SPxSolverBase<T>* theLP;
   DataArray<SPxId> theBaseId;
   DataArray<const SVectorBase<T>*> matrix;
   bool matrixIsSetup;
   bool factorized;
   SPxStatus thestatus;
   Desc thedesc;
   int loadMatrixVecs_calls;      /* ghost */

   SPxStatus status() const
   {
#include "Basis_status.inc"
   }
   void setStatus(SPxStatus stat)
   {
#include "Basis_setStatus.inc"
   }
   SPxId& baseId(int i)
   {
      BASEID_READ_HOOK(theBaseId.data, i);
#include "Basis_baseId_w.inc"
   }
   typename Desc::Status dualRowStatus(int i) const
   {
#include "dualRowStatus.inc"
   }
   typename Desc::Status dualColStatus(int i) const
   {
#include "dualColStatus.inc"
   }
   void reDim()
   {
#include "Basis_reDim.inc"
   }
   void invalidate()
   {
#include "Basis_invalidate.inc"
   }
   /* stub of loadMatrixVecs() (spxbasis.hpp): real: matrix[i] = &theLP->vector(baseId(i)) for all i, matrixIsSetup = true,
    * factorized = false, factor->clear().  The matrix pointers are not modelled; the call is counted. */
   void loadMatrixVecs() { loadMatrixVecs_calls++; matrixIsSetup = true; factorized = false; }
};

template <class T> struct SPxSolverBase : SPxLPBase<T>
{
   typedef T R;
#include "Solver_Representation.inc"
   Representation theRep;
   /* dim() is `thecovectors->num()`; setRep() points thecovectors at the row set for COLUMN and at the column set for
    * ROW (conformance-checked) */
   struct CoSet
   {
      const SPxSolverBase<T>* s;
      int num() const { return s->theRep == COLUMN ? s->nRows() : s->nCols(); }
   };
   CoSet coset;
   const CoSet* thecovectors;
   SVectorBase<T> somevec;     /* vector(id): the matrix pointers are not modelled */
   Representation rep() const
   {
#include "Solver_rep.inc"
   }
   int dim() const
   {
#include "Solver_dim.inc"
   }
   bool isBasic(typename SPxBasisBase<R>::Desc::Status stat) const
   {
#include "Solver_isBasic.inc"
   }
   const SVectorBase<T>& vector(const SPxId& p_id) const { return *(SVectorBase<T>*)&somevec; }
};

/* primalColStatus<R>(int i, const SPxLPBase<R>* theLP) is a static function template of spxchangebasis.hpp; function
 * templates do not overload-resolve in the front end (README 17), so the real body runs in a non-template function */
static inline SPxBasisBase<double>::Desc::Status primalColStatus(int i, const SPxLPBase<double>* theLP)
{
   typedef double R;
#include "primalColStatus.inc"
}

static inline void basis_change_force_ctors() { SPxLPBase<double> a; SPxSolverBase<double> c; SPxBasisBase<double> b; }
#endif
