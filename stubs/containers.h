/* Executable models of the container accessors the sliced bodies use.  Each accessor ADDS the bounds
 * assertion that the real class only has under assert(); a conformance step checks the real
 * signatures.  Automatic objects only, no destructors (see DESIGN.md section 2). */
#ifndef CONTAINERS_H
#define CONTAINERS_H

/* DATAARRAY_READ_INVARIANT(v): optional type invariant of the stored elements, supplied as an
 * assumption on every const read (e.g. scale exponents are bounded); units that define it list it
 * as an assumed invariant of a dependency. */
#ifndef DATAARRAY_READ_INVARIANT
#define DATAARRAY_READ_INVARIANT(v)
#endif
template <class T>
struct DataArray
{
   T* data; int thesize;
   int themax;   /* capacity of the stub's fixed memory block; only read by reSize() (wrappers that use reSize set it) */
   int size() const { return thesize; }
   void reSize(int n) { __CPROVER_assert(0 <= n && n <= themax, "DataArray::reSize within the stub's fixed capacity"); thesize = n; }
   T& operator[](int n) { __CPROVER_assert(0 <= n && n < thesize, "DataArray index in bounds"); DATAARRAY_READ_INVARIANT(data[n]); return data[n]; }
   const T& operator[](int n) const { __CPROVER_assert(0 <= n && n < thesize, "DataArray index in bounds"); DATAARRAY_READ_INVARIANT(data[n]); return data[n]; }
   T* get_ptr() { return data; }
   const T* get_const_ptr() const { return data; }
};

template <class T>
struct VectorBase
{
   T* val; int dimen;
   int dim() const { return dimen; }
   T& operator[](int n) { __CPROVER_assert(0 <= n && n < dimen, "VectorBase index in bounds"); return val[n]; }
   const T& operator[](int n) const { __CPROVER_assert(0 <= n && n < dimen, "VectorBase index in bounds"); return val[n]; }
   T* get_ptr() { return val; }
   const T* get_const_ptr() const { return val; }
};

/* sparse vector over two parallel arrays; bound = dimension every stored index must respect
 * (SVSet/LP type invariant, supplied as an assumption on read and listed as such) */
template <class T>
struct SVectorBase
{
   T* vals; int* idxs; int used; int cap; int bound;
   int size() const { return used; }
   int max() const { return cap; }
   int index(int n) const
   {
      __CPROVER_assert(0 <= n && n < used, "SVector position in bounds");
      int i = idxs[n];
      __CPROVER_assume(0 <= i && i < bound);   /* type invariant of the LP: stored indices < dimension */
      return i;
   }
   int& index(int n)
   {
      __CPROVER_assert(0 <= n && n < used, "SVector position in bounds");
      __CPROVER_assume(0 <= idxs[n] && idxs[n] < bound);   /* same type invariant on the writable view */
      return idxs[n];
   }
   T& value(int n) { __CPROVER_assert(0 <= n && n < used, "SVector position in bounds"); return vals[n]; }
   const T& value(int n) const { __CPROVER_assert(0 <= n && n < used, "SVector position in bounds"); return vals[n]; }
};
#endif
