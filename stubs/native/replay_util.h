/* Helpers for native replay drivers: read "key value" lines produced from a CBMC counterexample. */
#ifndef REPLAY_UTIL_H
#define REPLAY_UTIL_H
#include <cstdio>
#include <cstdlib>
#include <fstream>
#include <iostream>
#include <map>
#include <sstream>
#include <string>
#include <vector>

struct ReplayIn
{
   std::map<std::string, std::string> kv;
   explicit ReplayIn(const char* path)
   {
      std::ifstream f(path);
      std::string line;
      while(std::getline(f, line))
      {
         std::istringstream is(line);
         std::string k, v;
         is >> k;
         std::getline(is, v);
         size_t p = v.find_first_not_of(" \t");
         kv[k] = (p == std::string::npos) ? "" : v.substr(p);
      }
   }
   bool has(const std::string& k) const { return kv.count(k) != 0; }
   long long geti(const std::string& k, long long dflt = 0) const
   {
      auto it = kv.find(k);
      return it == kv.end() ? dflt : std::atoll(it->second.c_str());
   }
   double getd(const std::string& k, double dflt = 0.0) const
   {
      auto it = kv.find(k);
      return it == kv.end() ? dflt : std::atof(it->second.c_str());
   }
   /* array "name[k]": cells not present in the counterexample get the canonical filler base+k */
   std::vector<int> getarr(const std::string& name, int n, int base = 1000) const
   {
      std::vector<int> a(n > 0 ? n : 0);
      for(int k = 0; k < n; k++)
      {
         std::ostringstream key;
         key << name << "[" << k << "]";
         a[k] = has(key.str()) ? (int)geti(key.str()) : base + k;
      }
      return a;
   }
};

#define REPLAY_FAIL(msg) do { std::cout << "REPLAY: real code violates: " << msg << std::endl; return 1; } while(0)
#define REPLAY_OK() do { std::cout << "REPLAY: property held on this input" << std::endl; return 0; } while(0)
#endif
