/* LP stub for the SPxScaler / SPxLPBase scaling units at R = ledger.
 * Dense vectors (bounds, sides, objective), the two scale-exponent arrays and a flat sparse matrix:
 * row i occupies cells [i*MATW, i*MATW + rowsize[i]) of rowvals/rowidxs (columns likewise), so that
 * "vectors of an SVSet do not overlap" holds by construction (no aliasing assumption needed). */
#ifndef SCALER_LP_H
#define SCALER_LP_H
#include "ledger.h"
/* scale exponents come from frexp() of doubles: |e| is bounded (assumed type invariant) */
#ifndef DATAARRAY_READ_INVARIANT
#define DATAARRAY_READ_INVARIANT(v) __CPROVER_assume(-EXP_MAX <= (v) && (v) <= EXP_MAX)
#endif
#ifndef MATW
#define MATW 3
#endif

/* SPxOut::debug(this, fmt, args...) -> SPxOut::verif_debug_sink(): a C-variadic callee crashes dfcc's
 * inliner in functions that carry loop contracts, so the logging call is dropped by the preprocessor */
struct SPxOut { static void verif_debug_sink() {} };
#define debug(...) verif_debug_sink()

#include "lp_parts.h"

template <class T> struct SPxLPBase : LPRowSetBase<T>, LPColSetBase<T>
{
   bool _isScaled;
   int nr, nc;
   /* flat matrix storage, both copies */
   T* rowvals; int* rowidxs; int* rowsize;
   T* colvals; int* colidxs; int* colsize;
   /* the view handed out last (one at a time, as the callers use it); separate objects owned by the wrapper so
      that a loop contract can name them in its assigns clause without naming the whole LP */
   SVectorBase<T>* rvp; SVectorBase<T>* cvp;
   bool isScaled() const { return _isScaled; }
   void setScalingInfo(bool scaled) { _isScaled = scaled; }
   int nRows() const { return nr; }
   int nCols() const { return nc; }
   bool isConsistent() const { return true; }
   LPShared<T> sh;   /* the wrapper points both bases' `d` at it: bind() */
   void bind() { LPRowSetBase<T>::d = &sh; LPColSetBase<T>::d = &sh; }
   const T& lhs(int i) const { return sh.left[i]; }
   const T& rhs(int i) const { return sh.right[i]; }
   const T& lower(int i) const { return sh.low[i]; }
   const T& upper(int i) const { return sh.up[i]; }
   T& lhs_w(int i) { return sh.left[i]; }
   T& rhs_w(int i) { return sh.right[i]; }
   T& lower_w(int i) { return sh.low[i]; }
   T& upper_w(int i) { return sh.up[i]; }
   T& maxObj_w(int i) { return sh.obj[i]; }
   const T& maxRowObj(int i) const { return sh.robj[i]; }
   T& maxRowObj_w(int i) { return sh.robj[i]; }
   SVectorBase<T>& rowVector_w(int i)
   {
      __CPROVER_assert(0 <= i && i < nr, "row number in bounds");
      SVectorBase<T>& rv = *rvp;
      rv.vals = rowvals + i * MATW; rv.idxs = rowidxs + i * MATW; rv.used = rowsize[i]; rv.cap = MATW; rv.bound = nc;
      __CPROVER_assume(0 <= rv.used && rv.used <= MATW);   /* SVSet type invariant: size <= max */
      return rv;
   }
   SVectorBase<T>& colVector_w(int i)
   {
      __CPROVER_assert(0 <= i && i < nc, "column number in bounds");
      SVectorBase<T>& cv = *cvp;
      cv.vals = colvals + i * MATW; cv.idxs = colidxs + i * MATW; cv.used = colsize[i]; cv.cap = MATW; cv.bound = nr;
      __CPROVER_assume(0 <= cv.used && cv.used <= MATW);
      return cv;
   }
};
#endif
