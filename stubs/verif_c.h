/* Common prelude for the C contract files. */
#ifndef VERIF_C_H
#define VERIF_C_H
#include <stddef.h>
int nondet_int(void);
_Bool nondet_bool(void);
double nondet_double(void);
long long nondet_ll(void);
#define CANARY() __CPROVER_assert(0, "canary: end of harness reachable")
#endif
