/* Quantifier-free "for all cells below CAP".
 *   REP_ALL(P)       the explicit conjunction P(0) && ... && P(CAP-1)
 *   REP_ALLB(P2, a)  P2(a,0) && ... && P2(a,CAP-1), built from a second macro family so that a pairwise statement can
 *                    nest it inside REP_ALL (the preprocessor does not re-expand a macro inside itself):
 *                       #define ROW(a) REP_ALLB(PAIR, a)    ...    REP_ALL(ROW)
 *   REP_DO(S)        the statement form S(0); ...; S(CAP-1);   (no loop)
 * Used in `requires` clauses (and in straight-line stub models), where a fact about an array is needed at a
 * LOOP-DEPENDENT cell and a single ghost index cannot supply it.  P must guard itself (e.g. `!(i < n) || ...`).
 * CAP must be one of 2, 4, 6, 8, 12, 16, 24, 32.  Usable from C and C++. */
#ifndef VERIF_REP_H
#define VERIF_REP_H

#define REP_1(P, b)  (P((b)))
#define REP_2(P, b)  REP_1(P, b) && REP_1(P, (b) + 1)
#define REP_4(P, b)  REP_2(P, b) && REP_2(P, (b) + 2)
#define REP_8(P, b)  REP_4(P, b) && REP_4(P, (b) + 4)
#define REP_16(P, b) REP_8(P, b) && REP_8(P, (b) + 8)
#define REP_32(P, b) REP_16(P, b) && REP_16(P, (b) + 16)

#define REPB_1(P, a, b)  (P(a, (b)))
#define REPB_2(P, a, b)  REPB_1(P, a, b) && REPB_1(P, a, (b) + 1)
#define REPB_4(P, a, b)  REPB_2(P, a, b) && REPB_2(P, a, (b) + 2)
#define REPB_8(P, a, b)  REPB_4(P, a, b) && REPB_4(P, a, (b) + 4)
#define REPB_16(P, a, b) REPB_8(P, a, b) && REPB_8(P, a, (b) + 8)
#define REPB_32(P, a, b) REPB_16(P, a, b) && REPB_16(P, a, (b) + 16)

#define REPS_1(S, b)  S((b));
#define REPS_2(S, b)  REPS_1(S, b) REPS_1(S, (b) + 1)
#define REPS_4(S, b)  REPS_2(S, b) REPS_2(S, (b) + 2)
#define REPS_8(S, b)  REPS_4(S, b) REPS_4(S, (b) + 4)
#define REPS_16(S, b) REPS_8(S, b) REPS_8(S, (b) + 8)
#define REPS_32(S, b) REPS_16(S, b) REPS_16(S, (b) + 16)

#if CAP == 2
#define REP_ALL(P)  (REP_2(P, 0))
#define REP_ALLB(P, a) (REPB_2(P, a, 0))
#define REP_DO(S)   REPS_2(S, 0)
#elif CAP == 4
#define REP_ALL(P)  (REP_4(P, 0))
#define REP_ALLB(P, a) (REPB_4(P, a, 0))
#define REP_DO(S)   REPS_4(S, 0)
#elif CAP == 6
#define REP_ALL(P)  (REP_4(P, 0) && REP_2(P, 4))
#define REP_ALLB(P, a) (REPB_4(P, a, 0) && REPB_2(P, a, 4))
#define REP_DO(S)   REPS_4(S, 0) REPS_2(S, 4)
#elif CAP == 8
#define REP_ALL(P)  (REP_8(P, 0))
#define REP_ALLB(P, a) (REPB_8(P, a, 0))
#define REP_DO(S)   REPS_8(S, 0)
#elif CAP == 12
#define REP_ALL(P)  (REP_8(P, 0) && REP_4(P, 8))
#define REP_ALLB(P, a) (REPB_8(P, a, 0) && REPB_4(P, a, 8))
#define REP_DO(S)   REPS_8(S, 0) REPS_4(S, 8)
#elif CAP == 16
#define REP_ALL(P)  (REP_16(P, 0))
#define REP_ALLB(P, a) (REPB_16(P, a, 0))
#define REP_DO(S)   REPS_16(S, 0)
#elif CAP == 24
#define REP_ALL(P)  (REP_16(P, 0) && REP_8(P, 16))
#define REP_ALLB(P, a) (REPB_16(P, a, 0) && REPB_8(P, a, 16))
#define REP_DO(S)   REPS_16(S, 0) REPS_8(S, 16)
#elif CAP == 32
#define REP_ALL(P)  (REP_32(P, 0))
#define REP_ALLB(P, a) (REPB_32(P, a, 0))
#define REP_DO(S)   REPS_32(S, 0)
#else
#error "rep.h: CAP must be one of 2, 4, 6, 8, 12, 16, 24, 32"
#endif
#endif
