/* Stub environment for the C04 basis units (basis_conv, basis_solver, basis_soplex).
 *
 * What is REAL here (cut from /repo on every run and #included):
 *   - the enumerations VarStatus, Representation, SPxSolverBase::Status (spxsolver.h),
 *     SPxBasisBase::SPxStatus and SPxBasisBase::Desc::Status with its numeric values (spxbasis.h);
 *   - the bodies of Desc::nRows/nCols/rowStatus/colStatus, SPxBasisBase::dualRowStatus/
 *     dualColStatus, SPxSolverBase::basisStatusToVarStatus/varStatusToBasisStatusRow/Col/
 *     getBasisRowStatus/getBasisColStatus/isBasic(Status)/isRowBasic/isColBasic/dim/rep;
 *   - the constant `infinity` (SOPLEX_DEFAULT_INFINITY of the double build, via constants.h).
 * What is a STUB (listed under "trusted" in every unit.json, signatures conformance-checked):
 *   - DataArray / VectorBase: two-field executable models that add the bounds assertion;
 *   - SPxLPBase: lhs/rhs/lower/upper/nRows/nCols over four raw arrays;
 *   - the class skeletons (which data members exist, who derives from whom).
 * Automatic objects only, no destructors, no virtuals (DESIGN.md section 2). */
#ifndef BASIS_STUBS_H
#define BASIS_STUBS_H
#include "verif.h"
#include "constants.h"

/* ARRAY_READ_HOOK(data, n): optional ghost hook executed on every DataArray element access; the
 * counting units use it to instantiate the defining recurrence of a ghost prefix-count array
 * (see unit.json "trusted"). */
#ifndef ARRAY_READ_HOOK
#define ARRAY_READ_HOOK(data, n)
#endif

template <class T>
struct DataArray
{
   T* data; int thesize;
   int size() const { return thesize; }
   T& operator[](int n) { __CPROVER_assert(0 <= n && n < thesize, "DataArray index in bounds"); ARRAY_READ_HOOK(data, n); return data[n]; }
   const T& operator[](int n) const { __CPROVER_assert(0 <= n && n < thesize, "DataArray index in bounds"); ARRAY_READ_HOOK(data, n); return data[n]; }
   T* get_ptr() { return data; }
   const T* get_const_ptr() const { return data; }
};

template <class T>
struct VectorBase
{
   T* val; int dimen;
   int dim() const { return dimen; }
   T& operator[](int n) { __CPROVER_assert(0 <= n && n < dimen, "VectorBase index in bounds"); return val[n]; }
   const T& operator[](int n) const { __CPROVER_assert(0 <= n && n < dimen, "VectorBase index in bounds"); return val[n]; }
};

typedef double Real;
/* spxdefines.cpp: `const Real infinity = SOPLEX_DEFAULT_INFINITY;` (conformance-checked); the value
 * is extracted from the double branch of spxdefines.h into constants.h on every run */
static const Real infinity = VERIF_SOPLEX_INFINITY;

#define SPX_MSG_ERROR(x)
struct SPxInternalCodeException { SPxInternalCodeException(const char*) {} };
/* SPxOut::debug(obj, fmt, args...) is a variadic template in the tree; the C-variadic stub of the other units breaks
 * goto-instrument's inliner when extra arguments are passed and function templates do not overload-resolve, so:
 * no-op overloads for exactly the argument lists the sliced bodies use */
struct SPxOut
{
   static void debug(const void*, const char*) {}
   static void debug(const void*, const char*, int, int) {}
   static void debug(const void*, const char*, double, double, int) {}
   static void debug(const void*, const char*, int, double, double, int) {}
};
/* `throw X(..);` -> report to the contract's verif_throw() (which asserts that a throw is allowed
 * here), then end the path; the exception object expression is still type-checked. */
#define throw VERIF_THROW() (void)

/* identifier stub: the real SPxId is a DataKey (info<0 row, info>0 column; conformance-checked) plus
 * a key that LPRowSetBase/LPColSetBase::number() maps to the current position.  The stub carries
 * the position directly. */
struct SPxId
{
   int info; int num;
   bool isSPxRowId() const { return info < 0; }
   bool isSPxColId() const { return info > 0; }
};

template <class T> struct SPxLPBase
{
   typedef T R;   /* the sliced bodies name the number type R; member typedef so that `p->SPxLPBase<R>::f()` resolves R in p's class scope */
   VectorBase<T> left, right, low, up;
   VectorBase<T> objr, objc;   /* maxRowObj / maxObj (only read by loadDesc's status repair) */
   int nRows() const { return left.dimen; }
   int nCols() const { return low.dimen; }
   const T& lhs(int i) const { return (*(VectorBase<T>*)&left)[i]; }
   const T& rhs(int i) const { return (*(VectorBase<T>*)&right)[i]; }
   const T& lower(int i) const { return (*(VectorBase<T>*)&low)[i]; }
   const T& upper(int i) const { return (*(VectorBase<T>*)&up)[i]; }
   const T& maxRowObj(int i) const { return (*(VectorBase<T>*)&objr)[i]; }
   const T& maxObj(int i) const { return (*(VectorBase<T>*)&objc)[i]; }
   /* stub: the LP is not persistently scaled (_isScaled == false), where the real lowerUnscaled/upperUnscaled return
      the stored bound; only used for the slack basis reported when no basis is available */
   T lowerUnscaled(int i) const { return lower(i); }
   T upperUnscaled(int i) const { return upper(i); }
   /* position of the row/column named by id (stub: carried by the id; type invariant of the LP's
      DataSet: a valid id names an existing row/column) */
   int number(const SPxId& id) const
   {
      int n = id.num;
      __CPROVER_assume(0 <= n && n < (id.info > 0 ? low.dimen : left.dimen));
      return n;
   }
};

template <class T> struct SPxSolverBase;
#ifdef DESC_COPY_SCRATCH
extern "C" { extern int* gp_desc_scratch_rows; extern int* gp_desc_scratch_cols; }
#endif

/* CBMC's C++ front end (a) does not adjust `this` for member functions of a non-first base class,
 * (b) resolves the R in `p->SPxLPBase<R>::f()` in the class scope of *p, and (c) does not synthesise the
 * default constructor of a class-template instance that itself has a base unless an object of it is
 * declared first.  Therefore the real hierarchy
 *      class SPxSolverBase : public SPxLPBase<R>, protected SPxBasisBase<R>      (conformance-checked)
 * is linearised into the single-inheritance chain  SPxLPBase<T> <- SPxBasisBase<T> <- SPxSolverBase<T>,
 * every class has a member typedef R, and basis_stub_force_ctors() declares one object of each. */
template <class T> struct SPxBasisBase : SPxLPBase<T>
{
   typedef T R;
#include "SPxBasis_SPxStatus.inc"
   struct Desc
   {
#include "Desc_Status.inc"
      DataArray<Status> rowstat;
      DataArray<Status> colstat;
      DataArray<Status>* stat;
      DataArray<Status>* costat;
#ifdef DESC_COPY_SCRATCH
      /* The real copy constructor (spxdesc.hpp) deep-copies both arrays into fresh storage and re-targets
       * stat/costat.  No heap under dfcc: the stub copy takes its storage from two scratch arrays
       * provided by the wrapper (ONE live copy at a time) and leaves the CONTENTS unspecified - an
       * over-approximation that is only sound for callers that overwrite every entry (setBasis). */
      Desc() {}
      Desc(const Desc& o)
      {
         rowstat.data = (Status*)gp_desc_scratch_rows; rowstat.thesize = o.rowstat.thesize;
         colstat.data = (Status*)gp_desc_scratch_cols; colstat.thesize = o.colstat.thesize;
         stat = (o.stat == &o.rowstat) ? &rowstat : &colstat;
         costat = (o.costat == &o.rowstat) ? &rowstat : &colstat;
      }
#endif
      int nCols() const
      {
#include "Desc_nCols.inc"
      }
      int nRows() const
      {
#include "Desc_nRows.inc"
      }
      Status& rowStatus(int i)
      {
#include "Desc_rowStatus_w.inc"
      }
      Status rowStatus(int i) const
      {
#include "Desc_rowStatus_r.inc"
      }
      Status& colStatus(int i)
      {
#include "Desc_colStatus_w.inc"
      }
      Status colStatus(int i) const
      {
#include "Desc_colStatus_r.inc"
      }
   };

   SPxSolverBase<T>* theLP;
   Desc thedesc;
   SPxStatus thestatus;
   /* stands for DataArray<SPxId> theBaseId: (info, position) of the i-th basis vector in two parallel arrays */
   int* theBaseIdInfo; int* theBaseIdNum; int theBaseIdSize;

   SPxStatus status() const { return thestatus; }
   const Desc& desc() const { return *(Desc*)&thedesc; }
   Desc& desc() { return thedesc; }
   SPxId baseId(int i) const
   {
      __CPROVER_assert(0 <= i && i < theBaseIdSize, "baseId index in bounds");
      SPxId id; id.info = theBaseIdInfo[i]; id.num = theBaseIdNum[i];
      return id;
   }
   typename Desc::Status dualRowStatus(int i) const
   {
#include "dualRowStatus.inc"
   }
   typename Desc::Status dualColStatus(int i) const
   {
#include "dualColStatus.inc"
   }
#ifdef BASIS_EXTRA_MEMBERS
   BASIS_EXTRA_MEMBERS
#endif
};

/* SOLVER_EXTRA_MEMBERS lets a unit add the stubs of the non-sliced callees it needs. */
template <class T> struct SPxSolverBase : SPxBasisBase<T>
{
   typedef T R;
#include "Solver_Representation.inc"
#include "Solver_VarStatus.inc"
#include "Solver_Status.inc"

   Representation theRep;
   /* dim() is `thecovectors->num()`; SPxSolverBase::setRep() points thecovectors at the row set for
    * COLUMN and at the column set for ROW (conformance-checked), so the stub set's num() is: */
   struct CoSet
   {
      const SPxSolverBase<T>* s;
      int num() const { return s->theRep == COLUMN ? s->nRows() : s->nCols(); }
   };
   CoSet coset;
   const CoSet* thecovectors;
   Status m_status;
   /* the solver status returned by getBasis() is not part of C04 */
   Status status() const { return m_status; }
   const SPxBasisBase<T>& basis() const { return *(SPxBasisBase<T>*)this; }

   Representation rep() const
   {
#include "Solver_rep.inc"
   }
   int dim() const
   {
#include "Solver_dim.inc"
   }
   VarStatus basisStatusToVarStatus(typename SPxBasisBase<R>::Desc::Status stat) const
   {
#include "basisStatusToVarStatus.inc"
   }
   typename SPxBasisBase<R>::Desc::Status varStatusToBasisStatusRow(int row, VarStatus stat) const
   {
#include "varStatusToBasisStatusRow.inc"
   }
   typename SPxBasisBase<R>::Desc::Status varStatusToBasisStatusCol(int col, VarStatus stat) const
   {
#include "varStatusToBasisStatusCol.inc"
   }
   VarStatus getBasisRowStatus(int row) const
   {
#include "getBasisRowStatus.inc"
   }
   VarStatus getBasisColStatus(int col) const
   {
#include "getBasisColStatus.inc"
   }
   bool isBasic(typename SPxBasisBase<R>::Desc::Status stat) const
   {
#include "Solver_isBasic.inc"
   }
   bool isRowBasic(int i) const
   {
#include "Solver_isRowBasic.inc"
   }
   bool isColBasic(int i) const
   {
#include "Solver_isColBasic.inc"
   }
#ifdef SOLVER_EXTRA_MEMBERS
   SOLVER_EXTRA_MEMBERS
#endif
};
static inline void basis_stub_force_ctors() { SPxLPBase<double> a; SPxBasisBase<double> b; SPxSolverBase<double> c; }
typedef SPxSolverBase<double> SolverHost;

/* builds the automatic stub solver over raw arrays (every unit's wrapper starts with this) */
template <class S>
static inline void basis_stub_init(S& s, double* lhs, double* rhs, int nr, double* lower, double* upper, int nc,
                                   int* rowstat, int* colstat, int rep)
{
   typedef typename SPxBasisBase<double>::Desc::Status DS;
   s.left.val = lhs; s.left.dimen = nr; s.right.val = rhs; s.right.dimen = nr;
   s.low.val = lower; s.low.dimen = nc; s.up.val = upper; s.up.dimen = nc;
   s.objr.val = 0; s.objr.dimen = 0; s.objc.val = 0; s.objc.dimen = 0;
   s.theLP = (SPxSolverBase<double>*)&s;
   s.thedesc.rowstat.data = (DS*)rowstat; s.thedesc.rowstat.thesize = nr;
   s.thedesc.colstat.data = (DS*)colstat; s.thedesc.colstat.thesize = nc;
   s.theRep = rep > 0 ? SPxSolverBase<double>::COLUMN : SPxSolverBase<double>::ROW;
   s.thedesc.stat = rep > 0 ? &s.thedesc.colstat : &s.thedesc.rowstat;   /* as Desc::Desc(base) in spxdesc.hpp */
   s.thedesc.costat = rep > 0 ? &s.thedesc.rowstat : &s.thedesc.colstat;
   s.coset.s = (SPxSolverBase<double>*)&s; s.thecovectors = &s.coset;
   s.thestatus = SPxBasisBase<double>::REGULAR;
   s.m_status = SPxSolverBase<double>::UNKNOWN;
   s.theBaseIdInfo = 0; s.theBaseIdNum = 0; s.theBaseIdSize = 0;
}
#endif
