/* R = ledger: the template parameter R instantiated at "binary exponent offset".
 * A finite value x is represented by the integer number of binary orders it has been shifted;
 * +-infinity are the two saturating constants.  spxLdexp(x, e) = x + e (saturating at +-infinity,
 * exactly as IEEE ldexp leaves +-inf unchanged).  In this domain "scale then unscale gives the
 * value back bit for bit" is the integer fact "the exponents cancel".  Code that multiplies LP data
 * by anything but a power of two does not type-check against the uses below (no spxAbs, no '*').
 * Assumption reported in the evidence: IEEE ldexp is exact absent overflow/underflow. */
#ifndef LEDGER_H
#define LEDGER_H
typedef long long R;
#define LEDGER_INF (1LL << 40)
#define LEDGER_FIN (1LL << 30)   /* finite ledger values satisfy |x| <= LEDGER_FIN */
#define EXP_MAX (1 << 20)        /* scale exponents satisfy |e| <= EXP_MAX (real range: about +-2100) */
static const long long infinity = LEDGER_INF;
static inline R spxLdexp(R x, int e)
{
   if(x >= LEDGER_INF || x <= -LEDGER_INF)
      return x;
   return x + e;
}
#endif
