/* R = ledger: the template parameter R instantiated at "binary exponent offset".
 * A finite value x is represented by the integer number of binary orders it has been shifted;
 * R(infinity) is one large constant.  spxLdexp(x, e) = x + e for EVERY x: SoPlex's `infinity` is the
 * finite double 1e100 (SOPLEX_DEFAULT_INFINITY), so ldexp does change it - code that must leave an infinite
 * bound alone has to test for it, and a contract that says "infinite stays infinite" fails if it does not.  In this domain "scale then unscale gives the
 * value back bit for bit" is the integer fact "the exponents cancel".  Code that multiplies LP data
 * by anything but a power of two does not type-check against the uses below (no spxAbs, no '*').
 * Assumption reported in the evidence: IEEE ldexp is exact absent overflow/underflow. */
#ifndef LEDGER_H
#define LEDGER_H
typedef long long R;
#define LEDGER_INF (1LL << 40)
#define LEDGER_FIN (1LL << 30)   /* finite ledger values satisfy |x| <= LEDGER_FIN */
#define EXP_MAX (1 << 20)        /* scale exponents satisfy |e| <= EXP_MAX (real range: about +-2100) */
static const long long infinity = LEDGER_INF;
static inline R spxLdexp(R x, int e)
{
   /* modular addition: equals x + e whenever that does not overflow (always, for ledger-valid x and bounded e);
      cells other than the ghost cell carry arbitrary bit patterns and must not trip the overflow check */
   return (R)((unsigned long long)x + (unsigned long long)(long long)e);
}
#endif
