/* Common prelude for C++ proof units (compiled by goto-cc -nostdinc).
 * Everything a sliced body needs from its environment comes from here or from the unit's stubs. */
#ifndef VERIF_H
#define VERIF_H

/* assert(): the proofs are for the NDEBUG semantics (see DESIGN.md section 3) */
#define assert(x) ((void)0)
#ifndef nullptr
#endif
typedef unsigned long size_t;

/* wrappers record their inputs in the counterexample trace */
#define VIN(name, e) __CPROVER_input(name, (e))
#define VIN_ARR8(name, p, n) { \
  if(0 < (n)) __CPROVER_input(name "[0]", (p)[0]); if(1 < (n)) __CPROVER_input(name "[1]", (p)[1]); \
  if(2 < (n)) __CPROVER_input(name "[2]", (p)[2]); if(3 < (n)) __CPROVER_input(name "[3]", (p)[3]); \
  if(4 < (n)) __CPROVER_input(name "[4]", (p)[4]); if(5 < (n)) __CPROVER_input(name "[5]", (p)[5]); \
  if(6 < (n)) __CPROVER_input(name "[6]", (p)[6]); if(7 < (n)) __CPROVER_input(name "[7]", (p)[7]); }

extern "C" {
int nondet_int(void);
bool nondet_bool(void);
double nondet_double(void);
long long nondet_ll(void);
/* throw X(...) inside slices is compiled as a call to this, followed by an unreachable marker */
void verif_throw(void);
}
#define VERIF_THROW() { verif_throw(); __CPROVER_assume(0); }

#endif
