/* The contract of SPxSolverBase<R>::getBasis (wrapper w_getBasis).  PROVED in units/basis_solver (instance getBasis)
 * against the real body; USED (call replaced by contract) in units/basis_soplex for SoPlexBase<R>::getBasis.  One text,
 * included by both contract files, so the two cannot drift apart. */
#ifndef BASIS_GETBASIS_CONTRACT_H
#define BASIS_GETBASIS_CONTRACT_H
/* every output entry equals basisStatusToVarStatus of the descriptor entry; a null array is skipped and the
 * other one still filled; the descriptor is not modified.  A throw is possible only from the callee
 * basisStatusToVarStatus (descriptor entry that is no enumerator); a normal return implies the entries are valid. */
int w_getBasis(int* row, int userow, int* col, int usecol, int* rowstat, int* colstat, int nr, int nc, int rep, int mstatus)
__CPROVER_requires(DIMS_OK(nr, nc) && REP_OK(rep))
__CPROVER_requires(FRESH_INTS(row, nr) && FRESH_INTS(col, nc) && FRESH_INTS(rowstat, nr) && FRESH_INTS(colstat, nc))
__CPROVER_requires(GHOST_IN(g_r, nr) && GHOST_IN(g_c, nc))
__CPROVER_requires(v_r == rowstat[g_r] && v_c == colstat[g_c] && v_old_r == row[g_r] && v_old_c == col[g_c])
__CPROVER_requires(v_exp_r == TOVAR(v_r) && v_exp_c == TOVAR(v_c) && g_valid_r == VALID_DESC(v_r) && g_valid_c == VALID_DESC(v_c))
__CPROVER_requires(g_throw_allowed == 1)
__CPROVER_assigns(gp_row, gp_col, __CPROVER_object_whole(row), __CPROVER_object_whole(col))
__CPROVER_ensures((userow && nr > 0) ==> (row[g_r] == TOVAR(v_r) && VALID_DESC(v_r)))
__CPROVER_ensures((usecol && nc > 0) ==> (col[g_c] == TOVAR(v_c) && VALID_DESC(v_c)))
__CPROVER_ensures(!userow ==> row[g_r] == v_old_r)
__CPROVER_ensures(!usecol ==> col[g_c] == v_old_c)
__CPROVER_ensures(rowstat[g_r] == v_r && colstat[g_c] == v_c)
__CPROVER_ensures(__CPROVER_return_value == mstatus)
;
#endif
