/* R = "double whose binary +, - and * are uninterpreted".
 *
 * The template parameter R is instantiated at a one-member struct around an IEEE double.  Copy, comparison
 * (<, <=, >, >=, ==, !=) and unary minus are CBMC's exact IEEE operations on the stored double; binary
 * subtraction, addition and multiplication (*= by a double) are the UNINTERPRETED functions
 * __CPROVER_uninterpreted_fsub / _fadd / _fmul (any functions double x double -> double, in particular the IEEE
 * operations in any rounding mode).
 * A contract proved at this R therefore holds for the real instantiation R = double; it is a generalisation, not
 * an approximation.  What is lost: facts that need properties of + and - (e.g. monotonicity of a running sum).
 *
 * Why: SAT needs minutes to prove that two structurally separate IEEE subtractors with bit-equal inputs give the
 * same result (the "viol = lower - x[i]" of the body against "lower[g] - x[g]" of the specification); with the
 * operation uninterpreted this is one congruence axiom.
 *
 * Specifications (C side) name the same symbols:  double __CPROVER_uninterpreted_fsub(double, double). */
#ifndef REAL_UF_H
#define REAL_UF_H
extern "C" {
double __CPROVER_uninterpreted_fsub(double, double);
double __CPROVER_uninterpreted_fadd(double, double);
double __CPROVER_uninterpreted_fmul(double, double);
}
struct RealUF
{
   double v;
   RealUF() {}
   RealUF(double d) { v = d; }
   RealUF& operator=(double d) { v = d; return *this; }
   RealUF& operator+=(const RealUF& b) { v = __CPROVER_uninterpreted_fadd(v, b.v); return *this; }
   RealUF& operator-=(const RealUF& b) { v = __CPROVER_uninterpreted_fsub(v, b.v); return *this; }
   RealUF& operator*=(double s) { v = __CPROVER_uninterpreted_fmul(v, s); return *this; }
   RealUF operator-(const RealUF& b) const { RealUF r; r.v = __CPROVER_uninterpreted_fsub(v, b.v); return r; }
   RealUF operator+(const RealUF& b) const { RealUF r; r.v = __CPROVER_uninterpreted_fadd(v, b.v); return r; }
   RealUF operator-() const { RealUF r; r.v = -v; return r; }
   bool operator<(const RealUF& b) const { return v < b.v; }
   bool operator>(const RealUF& b) const { return v > b.v; }
   bool operator<=(const RealUF& b) const { return v <= b.v; }
   bool operator>=(const RealUF& b) const { return v >= b.v; }
   bool operator==(const RealUF& b) const { return v == b.v; }
   bool operator!=(const RealUF& b) const { return v != b.v; }
   bool operator<(double b) const { return v < b; }
   bool operator>(double b) const { return v > b; }
   bool operator<=(double b) const { return v <= b; }
   bool operator>=(double b) const { return v >= b; }
};
#endif
