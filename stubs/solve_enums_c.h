/* C view of the solver-side enumerations, for contract files (C02/C16 units).
 *
 * The enumerations are NOT re-typed: each `X.inc` is the verbatim text of the enum cut out of the tree by the unit's
 * "extracts" on every run.  Several of them share enumerator names (SPxSolverBase::Status, SPxSimplifier::Result and
 * SPxBasisBase::SPxStatus all have INFEASIBLE / UNBOUNDED / OPTIMAL ...), which C cannot keep apart, so every enumerator
 * NAME is prefixed by the preprocessor while the text is included; the VALUES are the tree's.
 *   SolverStatus.inc      enum Status          (spxsolver.h)     -> ST_<name>
 *   SimplifierResult.inc  enum Result          (spxsimplifier.h) -> SIMP_<name>
 *   SPxStatus.inc         enum SPxStatus       (spxbasis.h)      -> BS_<name>
 *   SolverType.inc        enum Type            (spxsolver.h)     -> TY_<name>
 *   SolverRep.inc         enum Representation  (spxsolver.h)     -> RP_<name>
 *   SPxSense.inc          enum SPxSense        (spxlpbase.h)     -> SN_<name>
 * A unit defines HAVE_<file stem> for the ones it extracts.  An enumerator added to the tree keeps its bare name (and
 * breaks the build, i.e. exit 2, if it clashes). */
#ifndef SOLVE_ENUMS_C_H
#define SOLVE_ENUMS_C_H

#ifdef HAVE_SolverStatus
#define ERROR ST_ERROR
#define NO_RATIOTESTER ST_NO_RATIOTESTER
#define NO_PRICER ST_NO_PRICER
#define NO_SOLVER ST_NO_SOLVER
#define NOT_INIT ST_NOT_INIT
#define ABORT_CYCLING ST_ABORT_CYCLING
#define ABORT_TIME ST_ABORT_TIME
#define ABORT_ITER ST_ABORT_ITER
#define ABORT_VALUE ST_ABORT_VALUE
#define SINGULAR ST_SINGULAR
#define NO_PROBLEM ST_NO_PROBLEM
#define REGULAR ST_REGULAR
#define RUNNING ST_RUNNING
#define UNKNOWN ST_UNKNOWN
#define OPTIMAL ST_OPTIMAL
#define UNBOUNDED ST_UNBOUNDED
#define INFEASIBLE ST_INFEASIBLE
#define INForUNBD ST_INForUNBD
#define OPTIMAL_UNSCALED_VIOLATIONS ST_OPTIMAL_UNSCALED_VIOLATIONS
#include "SolverStatus.inc"
#undef ERROR
#undef NO_RATIOTESTER
#undef NO_PRICER
#undef NO_SOLVER
#undef NOT_INIT
#undef ABORT_CYCLING
#undef ABORT_TIME
#undef ABORT_ITER
#undef ABORT_VALUE
#undef SINGULAR
#undef NO_PROBLEM
#undef REGULAR
#undef RUNNING
#undef UNKNOWN
#undef OPTIMAL
#undef UNBOUNDED
#undef INFEASIBLE
#undef INForUNBD
#undef OPTIMAL_UNSCALED_VIOLATIONS
#endif

#ifdef HAVE_SimplifierResult
#define OKAY SIMP_OKAY
#define INFEASIBLE SIMP_INFEASIBLE
#define DUAL_INFEASIBLE SIMP_DUAL_INFEASIBLE
#define UNBOUNDED SIMP_UNBOUNDED
#define VANISHED SIMP_VANISHED
#include "SimplifierResult.inc"
#undef OKAY
#undef INFEASIBLE
#undef DUAL_INFEASIBLE
#undef UNBOUNDED
#undef VANISHED
#endif

#ifdef HAVE_SPxStatus
#define NO_PROBLEM BS_NO_PROBLEM
#define SINGULAR BS_SINGULAR
#define REGULAR BS_REGULAR
#define DUAL BS_DUAL
#define PRIMAL BS_PRIMAL
#define OPTIMAL BS_OPTIMAL
#define UNBOUNDED BS_UNBOUNDED
#define INFEASIBLE BS_INFEASIBLE
#include "SPxStatus.inc"
#undef NO_PROBLEM
#undef SINGULAR
#undef REGULAR
#undef DUAL
#undef PRIMAL
#undef OPTIMAL
#undef UNBOUNDED
#undef INFEASIBLE
#endif

#ifdef HAVE_SolverType
#define ENTER TY_ENTER
#define LEAVE TY_LEAVE
#include "SolverType.inc"
#undef ENTER
#undef LEAVE
#endif

#ifdef HAVE_SolverRep
#define ROW RP_ROW
#define COLUMN RP_COLUMN
#include "SolverRep.inc"
#undef ROW
#undef COLUMN
#endif

#ifdef HAVE_SPxSense
#define MAXIMIZE SN_MAXIMIZE
#define MINIMIZE SN_MINIMIZE
#include "SPxSense.inc"
#undef MAXIMIZE
#undef MINIMIZE
#endif

#endif
