/* Extension of stubs/containers.h for unit `unsimplify` (C08/C04): VectorBase<T> WITH reDim().
 * containers.h owns the name VectorBase and must not be edited, so the extended model is called VectorRD;
 * units `#define VectorBase VectorRD` after including this header (same device as SVectorLk in svec_ext.h).
 *
 * reDim(newdim, setZero): the real body (vectorbase.h) is `val.insert(end, newdim - dim(), 0)` when growing with
 * setZero, `val.resize(newdim)` otherwise.  The model covers SHRINKING only (that is all SPxMainSM::unsimplify does:
 * it cuts the m_addedcols slack columns off); it ASSERTS 0 <= newdim <= dim(), so a body that would grow the vector
 * or pass a negative dimension (std::length_error in the real class) is flagged, not silently accepted.
 * Automatic objects only, no destructors (DESIGN.md section 2). */
#ifndef VECTOR_REDIM_H
#define VECTOR_REDIM_H
#include "containers.h"

template <class T>
struct VectorRD : VectorBase<T>
{
   void reDim(int newdim, const bool setZero = true)
   {
      __CPROVER_assert(0 <= newdim && newdim <= this->dimen,
                       "VectorBase::reDim model: shrinking only, dimension not negative");
      this->dimen = newdim;
   }
};
#endif
