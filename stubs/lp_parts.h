/* The two named bases of SPxLPBase<R> that sliced code addresses by qualified name
 * (`lp.LPColSetBase<R>::scaleExp`, `LPRowSetBase<R>::lhs_w(i)`), shaped around a CBMC front-end bug:
 * `this` is not adjusted when a member function of the second base is called.  Both bases therefore have the
 * IDENTICAL layout { LPShared<T>* d; DataArray<int> scaleExp; } and every base method goes through `d` only, so
 * the result is the same with or without the adjustment; `scaleExp` is only ever accessed as a qualified DATA
 * member (offsets of data members are computed correctly).  README.md point 16. */
#ifndef LP_PARTS_H
#define LP_PARTS_H
#include "containers.h"

template <class T> struct LPShared
{
   VectorBase<T> low, up, obj;       /* column bounds, (max) objective */
   VectorBase<T> left, right, robj;  /* row sides, row objective */
};

template <class T> struct LPRowSetBase
{
   LPShared<T>* d;
   DataArray<int> scaleExp;
   const VectorBase<T>& lhs() const { return *(VectorBase<T>*)&d->left; }
   const VectorBase<T>& rhs() const { return *(VectorBase<T>*)&d->right; }
   const T& lhs(int i) const { return d->left[i]; }
   const T& rhs(int i) const { return d->right[i]; }
   const T& obj(int i) const { return d->robj[i]; }
   T& lhs_w(int i) { return d->left[i]; }
   T& rhs_w(int i) { return d->right[i]; }
   T& obj_w(int i) { return d->robj[i]; }
   VectorBase<T>& lhs_w() { return d->left; }
   VectorBase<T>& rhs_w() { return d->right; }
};

template <class T> struct LPColSetBase
{
   LPShared<T>* d;
   DataArray<int> scaleExp;
   const VectorBase<T>& lower() const { return *(VectorBase<T>*)&d->low; }
   const VectorBase<T>& upper() const { return *(VectorBase<T>*)&d->up; }
   const VectorBase<T>& maxObj() const { return *(VectorBase<T>*)&d->obj; }
   const T& lower(int i) const { return d->low[i]; }
   const T& upper(int i) const { return d->up[i]; }
   const T& maxObj(int i) const { return d->obj[i]; }
   T& lower_w(int i) { return d->low[i]; }
   T& upper_w(int i) { return d->up[i]; }
   T& maxObj_w(int i) { return d->obj[i]; }
   VectorBase<T>& lower_w() { return d->low; }
   VectorBase<T>& upper_w() { return d->up; }
   VectorBase<T>& maxObj_w() { return d->obj; }
};
#endif
