/* C side of stubs/sparse_alg.h: views and specification macros shared by the contracts of units vecalg, dsvector, ssvector.
 *   dense vector  = int[dim]            (carrier of Ring)
 *   sparse vector = long long[max]      one 64-bit cell per Nonzero<Ring> {val, idx}: low half = val, high half = idx
 * "Dense view" of a sparse vector at index g = the value of the FIRST nonzero with index g, 0 if there is none
 * (= SVectorBase::operator[]).  All expansions are over at most 8 cells (CAP <= 8); cells >= n are never read. */
#ifndef SPARSE_ALG_C_H
#define SPARSE_ALG_C_H
#if CAP > 8
#error "sparse_alg_c.h: CAP <= 8"
#endif
int __CPROVER_uninterpreted_mul(int, int);
int __CPROVER_uninterpreted_add(int, int);
int __CPROVER_uninterpreted_sub(int, int);
int __CPROVER_uninterpreted_abs(int);
int __CPROVER_uninterpreted_embed(double);
#define MUL(a, b) __CPROVER_uninterpreted_mul((a), (b))
#define ADD(a, b) __CPROVER_uninterpreted_add((a), (b))
#define SUB(a, b) __CPROVER_uninterpreted_sub((a), (b))
#define ABS(a)    __CPROVER_uninterpreted_abs((a))
#define LO32(x)  ((int)(unsigned int)((unsigned long long)(x) & 0xffffffffULL))
#define HI32(x)  ((int)(unsigned int)((unsigned long long)(x) >> 32))
#define VAL(e, k) LO32((e)[k])
#define IDX(e, k) HI32((e)[k])
#define SD1(e, n, g, k, rest) ((((k) < (n)) && IDX(e, k) == (g)) ? VAL(e, k) : (rest))
#define SDENSE(e, n, g) SD1(e, n, g, 0, SD1(e, n, g, 1, SD1(e, n, g, 2, SD1(e, n, g, 3, SD1(e, n, g, 4, SD1(e, n, g, 5, SD1(e, n, g, 6, SD1(e, n, g, 7, 0))))))))
#define SI1(e, n, g, k) (((k) < (n)) && IDX(e, k) == (g))
#define SIN(e, n, g) (SI1(e, n, g, 0) || SI1(e, n, g, 1) || SI1(e, n, g, 2) || SI1(e, n, g, 3) || SI1(e, n, g, 4) || SI1(e, n, g, 5) || SI1(e, n, g, 6) || SI1(e, n, g, 7))
/* number of stored nonzero VALUES of a sparse vector / of nonzero entries of a dense vector */
#define NZ1(e, n, k) ((((k) < (n)) && VAL(e, k) != 0) ? 1 : 0)
#define SNNZ(e, n) (NZ1(e, n, 0) + NZ1(e, n, 1) + NZ1(e, n, 2) + NZ1(e, n, 3) + NZ1(e, n, 4) + NZ1(e, n, 5) + NZ1(e, n, 6) + NZ1(e, n, 7))
#define DZ1(w, n, k) ((((k) < (n)) && (w)[k] != 0) ? 1 : 0)
#define DNNZ(w, n) (DZ1(w, n, 0) + DZ1(w, n, 1) + DZ1(w, n, 2) + DZ1(w, n, 3) + DZ1(w, n, 4) + DZ1(w, n, 5) + DZ1(w, n, 6) + DZ1(w, n, 7))
/* membership of index g in an int index list */
#define II1(ix, n, g, k) (((k) < (n)) && (ix)[k] == (g))
#define IIN(ix, n, g) (II1(ix, n, g, 0) || II1(ix, n, g, 1) || II1(ix, n, g, 2) || II1(ix, n, g, 3) || II1(ix, n, g, 4) || II1(ix, n, g, 5) || II1(ix, n, g, 6) || II1(ix, n, g, 7))
#define IC1(ix, n, g, k) ((((k) < (n)) && (ix)[k] == (g)) ? 1 : 0)
#define ICOUNT(ix, n, g) (IC1(ix, n, g, 0) + IC1(ix, n, g, 1) + IC1(ix, n, g, 2) + IC1(ix, n, g, 3) + IC1(ix, n, g, 4) + IC1(ix, n, g, 5) + IC1(ix, n, g, 6) + IC1(ix, n, g, 7))
/* unwound instances allocate constant-size blocks (CAP cells) with a symbolic max() / dim() <= CAP (small SAT encoding) */
#define SVWF(e, mx, used) (0 <= (mx) && (mx) <= CAP && __CPROVER_is_fresh(e, CAP * sizeof(long long)) && 0 <= (used) && (used) <= (mx))
#define DVWF(w, dim) (1 <= (dim) && (dim) <= CAP && __CPROVER_is_fresh(w, CAP * sizeof(int)))
#endif
