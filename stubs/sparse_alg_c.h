/* C side of stubs/sparse_alg.h: views and specification macros shared by the contracts of units vecalg, dsvector, ssvector.
 *   dense vector  = int[dim]            (carrier of Ring)
 *   sparse vector = long long[max]      one 64-bit cell per Nonzero<Ring> {val, idx}: low half = val, high half = idx
 * "Dense view" of a sparse vector at index g = the value of the FIRST nonzero with index g, 0 if there is none
 * (= SVectorBase::operator[]).  All expansions are over CAP cells (CAP in {4, 6, 8}); cells >= n are never read. */
#ifndef SPARSE_ALG_C_H
#define SPARSE_ALG_C_H
int __CPROVER_uninterpreted_mul(int, int);
int __CPROVER_uninterpreted_add(int, int);
int __CPROVER_uninterpreted_sub(int, int);
int __CPROVER_uninterpreted_abs(int);
int __CPROVER_uninterpreted_embed(double);
#define MUL(a, b) __CPROVER_uninterpreted_mul((a), (b))
#define ADD(a, b) __CPROVER_uninterpreted_add((a), (b))
#define SUB(a, b) __CPROVER_uninterpreted_sub((a), (b))
#define ABS(a)    __CPROVER_uninterpreted_abs((a))
#define LO32(x)  ((int)(unsigned int)((unsigned long long)(x) & 0xffffffffULL))
#define HI32(x)  ((int)(unsigned int)((unsigned long long)(x) >> 32))
#define VAL(e, k) LO32((e)[k])
#define IDX(e, k) HI32((e)[k])
/* IMPORTANT (performance): CBMC's symbolic execution time grows quadratically with the size of a single contract clause
 * (every dereference inside a clause re-simplifies the whole clause).  "For all cells" facts are therefore given as ONE
 * CLAUSE PER CELL: REQ_EACH(P) / ENS_EACH(P) expand to __CPROVER_requires(P(0)) .. __CPROVER_requires(P(CAP-1)). */
#if CAP == 4
#define REQ_EACH(P) __CPROVER_requires(P(0)) __CPROVER_requires(P(1)) __CPROVER_requires(P(2)) __CPROVER_requires(P(3))
#define ENS_EACH(P) __CPROVER_ensures(P(0)) __CPROVER_ensures(P(1)) __CPROVER_ensures(P(2)) __CPROVER_ensures(P(3))
#define CELLS(J, M, ...) (M(0, __VA_ARGS__) J M(1, __VA_ARGS__) J M(2, __VA_ARGS__) J M(3, __VA_ARGS__))
#define SDENSE(e, n, g) SD1(e, n, g, 0, SD1(e, n, g, 1, SD1(e, n, g, 2, SD1(e, n, g, 3, 0))))
#elif CAP == 6
#define REQ_EACH(P) __CPROVER_requires(P(0)) __CPROVER_requires(P(1)) __CPROVER_requires(P(2)) __CPROVER_requires(P(3)) __CPROVER_requires(P(4)) __CPROVER_requires(P(5))
#define ENS_EACH(P) __CPROVER_ensures(P(0)) __CPROVER_ensures(P(1)) __CPROVER_ensures(P(2)) __CPROVER_ensures(P(3)) __CPROVER_ensures(P(4)) __CPROVER_ensures(P(5))
#define CELLS(J, M, ...) (M(0, __VA_ARGS__) J M(1, __VA_ARGS__) J M(2, __VA_ARGS__) J M(3, __VA_ARGS__) J M(4, __VA_ARGS__) J M(5, __VA_ARGS__))
#define SDENSE(e, n, g) SD1(e, n, g, 0, SD1(e, n, g, 1, SD1(e, n, g, 2, SD1(e, n, g, 3, SD1(e, n, g, 4, SD1(e, n, g, 5, 0))))))
#elif CAP == 8
#define REQ_EACH(P) __CPROVER_requires(P(0)) __CPROVER_requires(P(1)) __CPROVER_requires(P(2)) __CPROVER_requires(P(3)) __CPROVER_requires(P(4)) __CPROVER_requires(P(5)) __CPROVER_requires(P(6)) __CPROVER_requires(P(7))
#define ENS_EACH(P) __CPROVER_ensures(P(0)) __CPROVER_ensures(P(1)) __CPROVER_ensures(P(2)) __CPROVER_ensures(P(3)) __CPROVER_ensures(P(4)) __CPROVER_ensures(P(5)) __CPROVER_ensures(P(6)) __CPROVER_ensures(P(7))
#define CELLS(J, M, ...) (M(0, __VA_ARGS__) J M(1, __VA_ARGS__) J M(2, __VA_ARGS__) J M(3, __VA_ARGS__) J M(4, __VA_ARGS__) J M(5, __VA_ARGS__) J M(6, __VA_ARGS__) J M(7, __VA_ARGS__))
#define SDENSE(e, n, g) SD1(e, n, g, 0, SD1(e, n, g, 1, SD1(e, n, g, 2, SD1(e, n, g, 3, SD1(e, n, g, 4, SD1(e, n, g, 5, SD1(e, n, g, 6, SD1(e, n, g, 7, 0))))))))
#else
#error "sparse_alg_c.h: CAP must be 4, 6 or 8"
#endif
#define SD1(e, n, g, k, rest) ((((k) < (n)) && IDX(e, k) == (g)) ? VAL(e, k) : (rest))
#define SI1(k, e, n, g) (((k) < (n)) && IDX(e, k) == (g))
#define SIN(e, n, g) CELLS(||, SI1, e, n, g)
/* number of stored nonzero VALUES of a sparse vector / of nonzero entries of a dense vector */
#define NZ1(k, e, n) ((((k) < (n)) && VAL(e, k) != 0) ? 1 : 0)
#define SNNZ(e, n) CELLS(+, NZ1, e, n)
#define DZ1(k, w, n) ((((k) < (n)) && (w)[k] != 0) ? 1 : 0)
#define DNNZ(w, n) CELLS(+, DZ1, w, n)
/* membership / multiplicity of index g in an int index list */
#define II1(k, ix, n, g) (((k) < (n)) && (ix)[k] == (g))
#define IIN(ix, n, g) CELLS(||, II1, ix, n, g)
#define IC1(k, ix, n, g) ((((k) < (n)) && (ix)[k] == (g)) ? 1 : 0)
#define ICOUNT(ix, n, g) CELLS(+, IC1, ix, n, g)
/* unwound instances allocate constant-size blocks (CAP cells) with a symbolic max() / dim() <= CAP (small SAT encoding) */
#define SVWF(e, mx, used) (0 <= (mx) && (mx) <= CAP && __CPROVER_is_fresh(e, CAP * sizeof(long long)) && 0 <= (used) && (used) <= (mx))
#define DVWF(w, dim) (1 <= (dim) && (dim) <= CAP && __CPROVER_is_fresh(w, CAP * sizeof(int)))
#endif
