/* Host classes for the sparse / dynamic-sparse / semi-sparse vector algebra units of C19 (units vecalg, dsvector,
 * ssvector).  Every member body is #included from a slice cut verbatim out of /repo on each run (the unit.json of the
 * including unit lists the slices); what is NOT the real text is listed here and in the units' "trusted":
 *   - Ring: the abstract number type (below);
 *   - Nonzero<R>: two-member replica (val, idx) as in unit svector;
 *   - StdVec<T>: pointer + length stand-in for the std::vector<R> member `val` of VectorBase: operator[] (WITH a bounds
 *     assertion, which std::vector does not have), size(), data();
 *   - VectorBase<R>::clear(): the real body is a range-based for over the std::vector (`for(auto& v : val) v = 0;`),
 *     which goto-cc cannot parse; the stub sets val[0..dim) to 0 (conformance-checked against the real text);
 *   - class layout: SVectorBase<T> {m_elem, memsize, memused}, IdxSet {num, len, idx, freeArray} (conformance-checked).
 * Automatic objects only, no destructors.
 *
 * R = Ring: an abstract ring element.  Its binary +, -, * (and +=, -=, *=) and spxAbs are UNINTERPRETED functions
 * (__CPROVER_uninterpreted_add/sub/mul/abs) shared by the code and the specification, so a contract proved here holds
 * for every interpretation of these operations (IEEE double in any rounding mode, exact rationals, ...).  Copying,
 * ==, != and the order comparisons are exact on the carrier (int).  Ring(0) / Ring(0.0) is the carrier value 0; any other
 * double constant c (only SOPLEX_VECTOR_MARKER occurs) is the uninterpreted embedding __CPROVER_uninterpreted_embed(c). */
#ifndef SPARSE_ALG_H
#define SPARSE_ALG_H
#include "verif.h"
namespace std { template <class X> struct remove_const { typedef X type; }; }

#ifdef SPARSE_ALG_R_INT
typedef int R;
#else
extern "C" {
int __CPROVER_uninterpreted_mul(int, int);
int __CPROVER_uninterpreted_add(int, int);
int __CPROVER_uninterpreted_sub(int, int);
int __CPROVER_uninterpreted_abs(int);
int __CPROVER_uninterpreted_embed(double);
}
struct Ring
{
   int v;
   Ring() {}
   Ring(int x) : v(x) {}
   Ring(double d) { if(d == 0.0) v = 0; else v = __CPROVER_uninterpreted_embed(d); }
   Ring& operator=(int x) { v = x; return *this; }
   Ring& operator=(double d) { if(d == 0.0) v = 0; else v = __CPROVER_uninterpreted_embed(d); return *this; }
   Ring& operator+=(const Ring& o) { v = __CPROVER_uninterpreted_add(v, o.v); return *this; }
   Ring& operator-=(const Ring& o) { v = __CPROVER_uninterpreted_sub(v, o.v); return *this; }
   Ring& operator*=(const Ring& o) { v = __CPROVER_uninterpreted_mul(v, o.v); return *this; }
   Ring operator*(const Ring& b) const { Ring r; r.v = __CPROVER_uninterpreted_mul(v, b.v); return r; }
   Ring operator+(const Ring& b) const { Ring r; r.v = __CPROVER_uninterpreted_add(v, b.v); return r; }
   Ring operator-(const Ring& b) const { Ring r; r.v = __CPROVER_uninterpreted_sub(v, b.v); return r; }
};
inline bool operator!=(const Ring& a, const Ring& b) { return a.v != b.v; }
inline bool operator!=(const Ring& a, double d) { return a.v != Ring(d).v; }
inline bool operator!=(const Ring& a, int d) { return a.v != d; }
inline bool operator==(const Ring& a, const Ring& b) { return a.v == b.v; }
inline bool operator==(const Ring& a, double d) { return a.v == Ring(d).v; }
inline bool operator==(const Ring& a, int d) { return a.v == d; }
inline bool operator>(const Ring& a, const Ring& b) { return a.v > b.v; }
inline bool operator<(const Ring& a, const Ring& b) { return a.v < b.v; }
inline bool operator>=(const Ring& a, const Ring& b) { return a.v >= b.v; }
inline bool operator<=(const Ring& a, const Ring& b) { return a.v <= b.v; }
inline Ring spxAbs(const Ring& a) { Ring r; r.v = __CPROVER_uninterpreted_abs(a.v); return r; }
typedef Ring R;
#endif

/* Nonzero<R>: the two data members of the real class (conformance-checked); same-type copies are member-wise as in C++ */
template <class RR> class Nonzero
{
public:
   RR val;
   int idx;
};
#include "StableSum.inc"

template <class T> struct StdVec
{
   T* p; int n;
   T& operator[](int i) { __CPROVER_assert(0 <= i && i < n, "std::vector index in bounds"); return p[i]; }
   const T& operator[](int i) const { __CPROVER_assert(0 <= i && i < n, "std::vector index in bounds"); return p[i]; }
   T* data() { return p; }
   const T* data() const { return p; }
   size_t size() const { return (size_t)n; }
#ifdef WANT_VB_REDIM
   /* growth part of the std::vector stand-in (unit ssvector, instance reDim): the block behind p has room for VEC_BLOCK
    * elements (asserted); capacity() is the symbolic member cap >= n; growing beyond it picks ANY new capacity >= the new
    * size; new elements are value-initialised (0), as std::vector<R>::insert(end, count, 0) / resize do for a number type */
   int cap;
   size_t capacity() const { return (size_t)cap; }
   T* end() { return p + n; }
   void verif_grow(int m)
   {
      __CPROVER_assert(0 <= m && m <= VEC_BLOCK, "std::vector stand-in: new size within the fixed block");
      if(m > cap) { int c = nondet_int(); __CPROVER_assume(m <= c && c <= VEC_BLOCK); cap = c; }
      for(int sv_k = n; sv_k < m; ++sv_k) p[sv_k] = 0;
      n = m;
   }
   void insert(T* pos, int count, int v)
   {
      __CPROVER_assert(pos == p + n && v == 0, "std::vector stand-in: only insert(end(), count, 0) is modelled");
      verif_grow(n + count);
   }
   void resize(int m)
   {
      if(m > n) verif_grow(m); else { __CPROVER_assert(0 <= m, "std::vector::resize: size >= 0"); n = m; }
   }
#endif
};

template <class T> struct SVectorBase;

/* IdxSet: the four data members and the real bodies of the members the SSVectorBase code calls */
#ifdef WANT_IDXSET
struct IdxSet
{
   int  num;
   int  len;
   int* idx;
   bool freeArray;
   int size() const
   {
#include "IdxSet_size.inc"
   }
   int max() const
   {
#include "IdxSet_max.inc"
   }
   int index(int n) const
   {
#include "IdxSet_index.inc"
   }
   int pos(int i) const
   {
#include "IdxSet_pos.inc"
   }
   void addIdx(int i)
   {
#include "IdxSet_addIdx.inc"
   }
   void add(int n)
   {
#include "IdxSet_add1.inc"
   }
   void add(int n, const int i[])
   {
#include "IdxSet_add.inc"
   }
   void remove(int n)
   {
#include "IdxSet_remove1.inc"
   }
   void clear()
   {
#include "IdxSet_clear.inc"
   }
};
#define VECTORBASE_BASE : IdxSet
#else
#define VECTORBASE_BASE
#endif

/* VectorBase<R>: `val` is the std::vector<R> member of the real class (stand-in StdVec); in unit ssvector the class sits
 * on top of IdxSet so that the two named bases of SSVectorBase form ONE single-inheritance chain (CBMC's front end does
 * not adjust `this` for second bases, README pitfall 16); the layout is irrelevant to the sliced bodies. */
template <class T> struct VectorBase VECTORBASE_BASE
{
   typedef T R;
   StdVec<T> val;
   int dim() const
   {
#include "VB_dim.inc"
   }
   R& operator[](int n)
   {
#include "VB_at.inc"
   }
   const R& operator[](int n) const
   {
#include "VB_at_const.inc"
   }
   R* get_ptr()
   {
#include "VB_get_ptr.inc"
   }
#ifdef WANT_VB_REDIM
   int memSize() const
   {
#include "VB_memSize.inc"
   }
   void reDim(int newdim, const bool setZero = true)
   {
#include "VB_reDim.inc"
   }
#endif
   /* STUB (real body: `for(auto& v : val) v = 0;`, range-based for is not parsed by goto-cc) */
   void clear()
   {
      for(int vb_i = 0; vb_i < val.n; ++vb_i)
         val.p[vb_i] = 0;
   }
#ifdef WANT_VB_SPARSE
   VectorBase<R>& multAdd(const R& x, const SVectorBase<T>& vec)
   {
#include "VB_multAdd.inc"
   }
#endif
};

template <class T> struct SVectorBase
{
   typedef T R;
   typedef Nonzero<T> Element;
   Nonzero<T>* m_elem;
   int memsize;
   int memused;

   int size() const
   {
#include "SV_size.inc"
   }
   int max() const
   {
#include "SV_max.inc"
   }
   Nonzero<R>* mem() const
   {
#include "SV_mem.inc"
   }
   void set_size(int s)
   {
#include "SV_set_size.inc"
   }
   void set_max(int m)
   {
#include "SV_set_max.inc"
   }
   void setMem(int n, Nonzero<R>* elmem)
   {
#include "SV_setMem.inc"
   }
   int index(int n) const
   {
#include "SV_index.inc"
   }
   const R& value(int n) const
   {
#include "SV_value.inc"
   }
   void clear()
   {
#include "SV_clear.inc"
   }
   void add(int i, const R& v)
   {
#include "SV_add.inc"
   }
#ifdef WANT_SV_BULK
   void add(int n, const Nonzero<R> e[])
   {
#include "SV_addN.inc"
   }
   void add(const SVectorBase& sv)
   {
#include "SV_addSV.inc"
   }
   SVectorBase<R>& operator=(const SVectorBase<R>& sv)
   {
#include "SV_assignSV.inc"
   }
   SVectorBase<R>& operator=(const VectorBase<T>& vec)
   {
#include "SV_assignVB.inc"
   }
   SVectorBase<R>& operator*=(const R& x)
   {
#include "SV_scale.inc"
   }
#endif
#ifdef WANT_SV_NORMS
   void sort()
   {
#include "SV_sort.inc"
   }
   R maxAbs() const
   {
#include "SV_maxAbs.inc"
   }
   R minAbs() const
   {
#include "SV_minAbs.inc"
   }
   R length2() const
   {
#include "SV_length2.inc"
   }
#endif
};
#endif
