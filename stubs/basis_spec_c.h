/* Specification vocabulary shared by the C contract files of the C04 basis units.
 * The enumerator VALUES come from the tree (the extracted enum texts are valid C); the TABLES below are
 * the specification, transcribed from the property statement and from the documentation block of
 * SPxBasisBase::Desc::Status in spxbasis.h (not from the function bodies). */
#ifndef BASIS_SPEC_C_H
#define BASIS_SPEC_C_H
#include "verif_c.h"
#include "constants.h"
#include "Solver_VarStatus.inc"
#include "Desc_Status.inc"
#define INF VERIF_SOPLEX_INFINITY
#define NOT_NAN(x) ((x) == (x))

/* the nine descriptor statuses / the five VarStatus values that describe a variable */
#define IS_PRIMAL(s) ((s) == P_ON_LOWER || (s) == P_ON_UPPER || (s) == P_FREE || (s) == P_FIXED)
#define IS_DUAL(s)   ((s) == D_FREE || (s) == D_ON_UPPER || (s) == D_ON_LOWER || (s) == D_ON_BOTH || (s) == D_UNDEFINED)
#define VALID_DESC(s) (IS_PRIMAL(s) || IS_DUAL(s))
#define VALID_VAR5(v) ((v) == ON_UPPER || (v) == ON_LOWER || (v) == FIXED || (v) == ZERO || (v) == BASIC)

/* descriptor -> VarStatus: a dual status means "basic" */
#define TOVAR(s) ((s) == P_ON_LOWER ? ON_LOWER : (s) == P_ON_UPPER ? ON_UPPER : (s) == P_FIXED ? FIXED : (s) == P_FREE ? ZERO : BASIC)
/* nonbasic VarStatus -> descriptor */
#define TOPRIMAL(v) ((v) == ON_LOWER ? P_ON_LOWER : (v) == ON_UPPER ? P_ON_UPPER : (v) == FIXED ? P_FIXED : P_FREE)
/* dual status of a variable/row with bounds l <= . <= u (table "Dual Variables" in spxbasis.h) */
#define FIN_LO(l) ((l) > -INF)
#define FIN_UP(u) ((u) < INF)
#define DUALSTAT(l, u) ( (FIN_LO(l) && FIN_UP(u)) ? ((l) == (u) ? D_FREE : D_ON_BOTH) \
                   : (FIN_LO(l) && !FIN_UP(u)) ? D_ON_UPPER \
                   : (!FIN_LO(l) && FIN_UP(u)) ? D_ON_LOWER : D_UNDEFINED )
/* a nonbasic VarStatus v is admissible for bounds l,u (property statement: not at an infinite bound,
 * not FIXED with differing bounds) */
#define INF_UP(u) ((u) >= INF)
#define INF_LO(l) ((l) <= -INF)
#define NONBASIC_OK(v, l, u) (!((v) == ON_UPPER && INF_UP(u)) && !((v) == ON_LOWER && INF_LO(l)) && !((v) == FIXED && (l) != (u)))
#define PRIMAL_OK(s, l, u) (!((s) == P_ON_UPPER && INF_UP(u)) && !((s) == P_ON_LOWER && INF_LO(l)) && !((s) == P_FIXED && (l) != (u)))

/* ghosts shared by the units: g_r / g_c are the ghost row / column index ("for all rows/columns"); the v_ and g_valid_
 * ghosts hold values of the pre-state at the ghost index so that loop invariants (which may not call functions or use
 * macros) can refer to them */
int g_nr, g_nc, g_r, g_c, v_r, v_c, v_exp_r, v_exp_c, g_valid_r, g_valid_c, v_old_r, v_old_c;
int* gp_row; int* gp_col;
#ifndef CAP
#define CAP 8
#endif
#define DIMS_OK(nr, nc) (0 <= (nr) && (nr) <= CAP && 0 <= (nc) && (nc) <= CAP && g_nr == (nr) && g_nc == (nc))
#define FRESH_INTS(p, n) __CPROVER_is_fresh(p, ((n) > 0 ? (n) : 1) * sizeof(int))
#define FRESH_DBLS(p, n) __CPROVER_is_fresh(p, ((n) > 0 ? (n) : 1) * sizeof(double))
/* ghost index in range (or the range is empty) */
#define GHOST_IN(g, n) ((n) == 0 ? (g) == 0 : (0 <= (g) && (g) < (n)))
#define REP_OK(rep) ((rep) == 1 || (rep) == -1)

/* `throw X(..)` in a slice calls this before the path ends: a throw is a violation unless the
 * contract's precondition set g_throw_allowed */
int g_throw_allowed;
void verif_throw(void) { __CPROVER_assert(g_throw_allowed, "exception thrown only where the contract allows it"); }
#endif
