/* Extensions of stubs/containers.h for the postsolve units (C08/C04): executable models of
 * SVectorBase<T> WITH index lookup (named SVectorLk here, because containers.h already owns the
 * name SVectorBase and must not be edited; units `#define SVectorBase SVectorLk` after including this
 * header), DSVectorBase<T> (dynamic sparse vector) and Array<T>.
 *
 * SVectorLk<T>: two parallel arrays idxs/vals with `used` entries; every stored index is assumed
 * to be in [0, bound) when read through index(n) const (type invariant of LP row/column vectors,
 * listed as an assumption by the units).  In addition to size/index/value it has
 *   - operator[](int i) const : the value stored for index i, 0 if there is none.  The real body
 *     (svectorbase.h: pos(i) = FIRST position p with index(p)==i, then value(p), else 0) contains a
 *     loop in a function whose CBMC id has a comma, which cannot carry a loop contract; the model is
 *     the same first-match search written out for at most SVEC_LOOKUP_MAX (8) entries, and it
 *     asserts used <= SVEC_LOOKUP_MAX, so it is exact for every vector it accepts.
 * DSVectorBase<T> adds
 *   - DSVectorBase(int n) / add(i, v) for locally built vectors (storage = an inline buffer of
 *     SVEC_LOOKUP_MAX entries; the real class grows on demand, the model asserts the buffer suffices);
 *   - copy construction (member-wise; the copy aliases the source's storage, which is enough for the
 *     read-only local copies the postsolve bodies make).
 * Automatic objects only, no destructors (DESIGN.md section 2). */
#ifndef SVEC_EXT_H
#define SVEC_EXT_H
#include "containers.h"

#define SVEC_LOOKUP_MAX 8
/* DSVEC_CTOR_HOOK(self): optional ghost hook run by DSVectorBase(int) - lets a unit export alias pointers to
 * the members of a vector that a sliced body builds locally (loop invariants cannot name C++ members) */
#ifndef DSVEC_CTOR_HOOK
#define DSVEC_CTOR_HOOK(self)
#endif

template <class T>
struct SVectorLk
{
   T* vals; int* idxs; int used; int cap; int bound;
   int size() const { return used; }
   int max() const { return cap; }
   int index(int n) const
   {
      __CPROVER_assert(0 <= n && n < used, "SVector position in bounds");
      int i = idxs[n];
      __CPROVER_assume(0 <= i && i < bound);   /* type invariant: stored indices < dimension */
      return i;
   }
   const T& value(int n) const { __CPROVER_assert(0 <= n && n < used, "SVector position in bounds"); return vals[n]; }
   T operator[](int i) const
   {
      __CPROVER_assert(used <= SVEC_LOOKUP_MAX, "SVector model: lookup handles at most SVEC_LOOKUP_MAX entries");
      if(0 < used && idxs[0] == i) return vals[0];
      if(1 < used && idxs[1] == i) return vals[1];
      if(2 < used && idxs[2] == i) return vals[2];
      if(3 < used && idxs[3] == i) return vals[3];
      if(4 < used && idxs[4] == i) return vals[4];
      if(5 < used && idxs[5] == i) return vals[5];
      if(6 < used && idxs[6] == i) return vals[6];
      if(7 < used && idxs[7] == i) return vals[7];
      return 0;
   }
};

template <class T>
struct DSVectorBase : SVectorLk<T>
{
   T buf_v[SVEC_LOOKUP_MAX]; int buf_i[SVEC_LOOKUP_MAX];

   DSVectorBase() {}
   explicit DSVectorBase(int n)
   {
      this->vals = buf_v; this->idxs = buf_i; this->used = 0; this->cap = SVEC_LOOKUP_MAX;
      this->bound = 0x7fffffff;
      DSVEC_CTOR_HOOK(this)
   }
   void add(int i, const T& v)
   {
      __CPROVER_assert(this->used < SVEC_LOOKUP_MAX, "DSVector model: local vector fits the inline buffer");
      this->idxs[this->used] = i; this->vals[this->used] = v; this->used = this->used + 1;
   }
};

/* soplex::Array<T> (array.h): size() and operator[] with the bounds assertion added */
template <class T>
struct Array
{
   T* data; int thesize;
   int size() const { return thesize; }
   T& operator[](int n) { __CPROVER_assert(0 <= n && n < thesize, "Array index in bounds"); return data[n]; }
   const T& operator[](int n) const { __CPROVER_assert(0 <= n && n < thesize, "Array index in bounds"); return data[n]; }
};
#endif
