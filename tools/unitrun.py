#!/usr/bin/env python3
"""Run one proof unit instance: slice -> goto-cc -> goto-instrument --dfcc -> cbmc.

A unit lives in /verif/units/<unit>/unit.json (+ unit.cpp, contract.c, ...).  See units/README.md.
Nothing here edits /repo.  Every external tool runs under `timeout` and `ulimit -v`.
"""
import json
import os
import re
import shutil
import subprocess
import sys
import time

sys.path.insert(0, os.path.dirname(os.path.abspath(__file__)))
import slicer  # noqa: E402

VERIF = os.path.dirname(os.path.dirname(os.path.abspath(__file__)))
REPO = os.environ.get("VERIF_REPO", "/repo")
STUBS = os.path.join(VERIF, "stubs")
CANARY = "canary: end of harness reachable"


class Machinery(Exception):
    """Anything that is not a verdict: extraction break, tool error, timeout, vacuity."""


def sh(cmd, cwd, timeout_s, mem_gb, log):
    """Run cmd (list) under timeout and address-space limit; returns (rc, stdout)."""
    pre = "ulimit -v %d; exec timeout %d " % (int(mem_gb * 1024 * 1024), int(timeout_s))
    full = pre + " ".join(_q(c) for c in cmd)
    t0 = time.time()
    p = subprocess.run(["bash", "-c", full], cwd=cwd, stdout=subprocess.PIPE, stderr=subprocess.STDOUT)
    out = p.stdout.decode("utf-8", "replace")
    log.append({"cmd": " ".join(cmd), "rc": p.returncode, "s": round(time.time() - t0, 2)})
    return p.returncode, out


def _q(s):
    if re.match(r"^[A-Za-z0-9_./=:,+@%-]+$", s):
        return s
    return "'" + s.replace("'", "'\\''") + "'"


def load_unit(unit):
    d = os.path.join(VERIF, "units", unit)
    u = json.load(open(os.path.join(d, "unit.json")))
    u["_dir"] = d
    u["_name"] = unit
    return u


def instances(u):
    insts = u.get("instances")
    if not insts:
        return [dict(u, name="main")]
    out = []
    for i in insts:
        m = dict(u)
        m.pop("instances", None)
        for k, v in i.items():
            if k == "defines":
                dd = dict(u.get("defines", {}))
                dd.update(v)
                m[k] = dd
            else:
                m[k] = v
        out.append(m)
    return out


def _defines(inst, tier, small):
    d = dict(inst.get("defines", {}))
    if tier == "thorough":
        d.update(inst.get("defines_thorough", {}))
    if small:
        d.update(inst.get("defines_small", {}))
        d["VERIF_SMALL"] = "1"
    return ["-D%s=%s" % (k, v) if v != "" else "-D%s" % k for k, v in d.items()]


def prepare(inst, work, mutant=None):
    """Slices, extracted regions, constants, conformance.  Returns slice records."""
    os.makedirs(os.path.join(work, "slices"), exist_ok=True)
    recs = []
    mut_applied = False
    for s in inst.get("slices", []):
        path = os.path.join(REPO, s["file"])
        if not os.path.exists(path):
            raise Machinery("slice source missing: " + s["file"])
        try:
            if "region_start" in s:
                r = slicer.extract_region(path, s["region_start"], s["region_end"], nth=s.get("nth", 0))
            else:
                r = slicer.extract(path, s["sig"], s.get("nth", 0))
        except slicer.SliceError as e:
            raise Machinery("slice %s: %s" % (s["as"], e))
        body = r["body"]
        if mutant and mutant.get("slice") == s["as"]:
            if mutant.get("regex"):
                nb, n = re.subn(mutant["find"], mutant["replace"], body, count=1, flags=re.S)
            else:
                n = body.count(mutant["find"])
                nb = body.replace(mutant["find"], mutant["replace"], 1)
            if n < 1 or nb == body:
                raise Machinery("mutant %s does not apply to slice %s" % (mutant.get("name"), s["as"]))
            body = nb
            mut_applied = True
        # "must_contain" is ADVISORY: the slice is the real code, so the contract decides whether a changed text still
        # satisfies the property (a hard failure here would turn semantic changes into undecided runs).  Only patterns
        # listed under "model_depends_on" (the stub/macro model is unsound without them) stop the run.
        for mf in s.get("model_depends_on", []):
            if not re.search(mf, r["body"], re.S):
                raise Machinery("slice %s no longer contains /%s/ (the stub model depends on it)" % (s["as"], mf))
        notes = [mf for mf in s.get("must_contain", []) if not re.search(mf, r["body"], re.S)]
        first = r["start_line"]
        with open(os.path.join(work, "slices", s["as"]), "w", encoding="utf-8", errors="surrogateescape") as f:
            f.write('#line %d "%s"\n' % (first, path))
            f.write(body)
            f.write("\n")
        rec = {"as": s["as"], "file": s["file"], "lines": [r["start_line"], r["end_line"]],
               "signature": r["signature"], "sha256": r["sha256"]}
        if notes:
            rec["text_changed_since_contract_was_written"] = notes
        recs.append(rec)
    if mutant and not mut_applied:
        raise Machinery("mutant %s names unknown slice" % mutant.get("name"))
    # verbatim regex extractions (enums, tables) and constants
    with open(os.path.join(work, "constants.h"), "w") as f:
        f.write("/* generated from the current tree on every run */\n")
        for c in inst.get("constants", []):
            txt = open(os.path.join(REPO, c["file"]), encoding="utf-8", errors="replace").read()
            m = re.search(c["regex"], txt, re.S)
            if not m:
                raise Machinery("constant %s not found in %s" % (c["name"], c["file"]))
            f.write("#define %s %s\n" % (c["name"], m.group(c.get("group", 1)).strip()))
    for x in inst.get("extracts", []):
        txt = open(os.path.join(REPO, x["file"]), encoding="utf-8", errors="replace").read()
        m = re.search(x["regex"], txt, re.S)
        if not m:
            raise Machinery("extract %s not found in %s" % (x["as"], x["file"]))
        with open(os.path.join(work, "slices", x["as"]), "w") as f:
            f.write(m.group(x.get("group", 0)) + "\n")
        recs.append({"as": x["as"], "file": x["file"], "extract": x["regex"]})
    for c in inst.get("conformance", []):
        txt = open(os.path.join(REPO, c["file"]), encoding="utf-8", errors="replace").read()
        found = re.search(c["regex"], txt, re.S) is not None
        if found == bool(c.get("absent", False)):
            raise Machinery("stub conformance: /%s/ %s in %s (%s)" % (
                c["regex"], "present" if found else "not found", c["file"], c.get("why", "")))
    return recs


def parse_loops(txt):
    loops = []
    for m in re.finditer(r"^Loop (.+)\.(\d+):\n\s+file (\S+) line (\d+) function (\S+)", txt, re.M):
        loops.append({"function": m.group(1), "n": int(m.group(2)), "file": m.group(3), "line": int(m.group(4))})
    return loops


def parse_symbols(txt):
    return re.findall(r"^Symbol\.+: (.+)$", txt, re.M)


def build_loop_file(inst, work, loops, symbols):
    """units give invariants keyed by (function, loop ordinal); symbol_map is regenerated here."""
    specs = inst.get("loops", [])
    fmap = {}
    have = set()
    for sp in specs:
        fn = sp["function"]
        # function may be given as the exact CBMC id or a regex
        cands = sorted({l["function"] for l in loops if l["function"] == fn or re.fullmatch(fn, l["function"])})
        if len(cands) != 1:
            raise Machinery("loop contract for %s: %d candidate functions %s" % (fn, len(cands), cands))
        f = cands[0]
        if not any(l["function"] == f and l["n"] == sp["loop"] for l in loops):
            raise Machinery("loop %s.%d does not exist (loop structure changed)" % (f, sp["loop"]))
        smap = []
        for ident, hint in _locals(sp):
            pre = f + "::"
            cs = [s for s in symbols if s.startswith(pre) and s.endswith("::" + hint)]
            if len(cs) != 1:
                raise Machinery("loop %s.%d: identifier %s resolves to %d symbols %s" % (f, sp["loop"], ident, len(cs), cs[:5]))
            smap.append("%s,%s" % (ident, cs[0]))
        ent = {"loop_id": str(sp["loop"]),
               "invariants": " && ".join("(%s)" % i for i in sp["invariants"]),
               "symbol_map": ";".join(smap)}
        if sp.get("assigns"):
            ent["assigns"] = ",".join(sp["assigns"])
        if sp.get("decreases"):
            ent["decreases"] = sp["decreases"]
        if "," in f or ";" in f:
            raise Machinery("function id %s contains a comma: cannot carry loop contracts" % f)
        fmap.setdefault(f, []).append(ent)
        have.add((f, sp["loop"]))
    unwound = {(x["function"], x["loop"]) for x in inst.get("unwind_loops", [])}
    for l in loops:
        if l["function"].startswith("__CPROVER") or l["file"].startswith("<builtin"):
            continue
        key = (l["function"], l["n"])
        if key not in have and not any(re.fullmatch(f, l["function"]) and n == l["n"] for f, n in unwound):
            raise Machinery("loop %s.%d (%s:%d) has neither a loop contract nor a complete-unwinding entry "
                            "(loop structure changed)" % (l["function"], l["n"], l["file"], l["line"]))
    doc = {"sources": [], "functions": [{re.escape(f): ents} for f, ents in fmap.items()]}
    p = os.path.join(work, "loops.json")
    json.dump(doc, open(p, "w"), indent=1)
    return p, len(have)


def _locals(sp):
    out = []
    for x in sp.get("locals", []):
        if isinstance(x, str):
            out.append((x, x))
        else:
            out.append((x[0], x[1]))
    return out


def run_instance(inst, tier="quick", scratch="/var/tmp", small=False, mutant=None, want_trace=None, keep=False, concrete=False):
    """Returns a result dict.  status in pass|fail|machinery."""
    t0 = time.time()
    log = []
    tag = "%s__%s%s%s" % (inst["_name"], inst["name"], "__small" if small else "", ("__mut_" + mutant["name"]) if mutant else "")
    work = os.path.join(scratch, tag)
    shutil.rmtree(work, ignore_errors=True)
    os.makedirs(work)
    res = {"unit": inst["_name"], "instance": inst["name"], "tier": tier, "status": "machinery", "reason": "",
           "obligations": 0, "discharged": 0, "failures": [], "slices": [], "log": log, "solver_s": 0.0,
           "function": inst.get("function", ""), "rmode": inst.get("rmode", ""), "backend": "cbmc 6.11 SAT (minisat2)"}
    try:
        res["slices"] = prepare(inst, work, mutant)
        tmo = inst.get("timeout_s", 300) * (3 if tier == "thorough" else 1)
        mem = inst.get("mem_gb", 8)
        defs = _defines(inst, tier, small)
        incs = ["-I", STUBS, "-I", work, "-I", os.path.join(work, "slices"), "-I", inst["_dir"]]
        gbs = []
        for n, src in enumerate(inst.get("cpp", ["unit.cpp"])):
            if isinstance(src, dict):
                path = os.path.join(REPO, src["repo"])
                extra = ["-I", os.path.join(REPO, "src")]
            else:
                path = os.path.join(inst["_dir"], src)
                extra = []
            gb = "u%d.gb" % n
            rc, out = sh(["goto-cc", "-nostdinc", "-std=c++11"] + defs + incs + extra + ["-c", path, "-o", gb], work, 300, mem, log)
            if rc != 0:
                raise Machinery("goto-cc (C++) failed on %s: %s" % (path, _tail(out)))
            gbs.append(gb)
        for n, src in enumerate(inst.get("c", ["contract.c"])):
            gb = "c%d.gb" % n
            rc, out = sh(["goto-cc"] + defs + incs + ["-c", os.path.join(inst["_dir"], src), "-o", gb], work, 300, mem, log)
            if rc != 0:
                raise Machinery("goto-cc (C) failed on %s: %s" % (src, _tail(out)))
            gbs.append(gb)
        harness = inst["harness"]
        rc, out = sh(["goto-cc", "--function", harness] + gbs + ["-o", "a.gb"], work, 300, mem, log)
        if rc != 0:
            raise Machinery("goto-cc link failed: " + _tail(out))
        rc, out = sh(["goto-instrument", "--show-loops", "a.gb"], work, 120, mem, log)
        loops = parse_loops(out)
        rc, out = sh(["goto-instrument", "--show-symbol-table", "a.gb"], work, 120, mem, log)
        symbols = parse_symbols(out)
        if concrete:
            inst = dict(inst); inst["unwind_loops"] = [{"function": ".*", "loop": l["n"]} for l in loops]
        lfile, ncontracts = build_loop_file(inst, work, loops, symbols)
        if concrete:
            # counterexample search: no loop contracts, loops unwound (small scope) => traces are executions
            ncontracts = 0
        gi = ["goto-instrument"]
        if ncontracts:
            gi += ["--loop-contracts-file", lfile]
        gi += ["--dfcc", harness]
        for e in _aslist(inst.get("enforce")):
            gi += ["--enforce-contract", e]
        for r in inst.get("replace", []):
            gi += ["--replace-call-with-contract", r]
        if ncontracts:
            gi += ["--apply-loop-contracts"]
        gi += inst.get("instrument_flags", [])
        gi += ["a.gb", "b.gb"]
        rc, out = sh(gi, work, 600, mem, log)
        if rc != 0 or not os.path.exists(os.path.join(work, "b.gb")):
            raise Machinery("goto-instrument --dfcc failed: " + _tail(out))
        flags = list(inst.get("flags", ["--bounds-check", "--pointer-check"]))
        if "--sat-solver" in flags:
            res["backend"] = "cbmc 6.11 SAT (%s)" % flags[flags.index("--sat-solver") + 1]
        for x in inst.get("unwind_loops", []):
            pass
        if concrete:
            flags += ["--unwind", str(inst.get("small_unwind", 10))]
        elif inst.get("unwind"):
            flags += ["--unwind", str(inst["unwind"]), "--unwinding-assertions"]
        cb = ["cbmc", "b.gb", "--json-ui", "--verbosity", "4"] + flags
        if want_trace is not None:
            cb += ["--trace"]
            for p in want_trace:
                cb += ["--property", p]
        ts = time.time()
        rc, out = sh(cb, work, tmo, mem, log)
        res["solver_s"] = round(time.time() - ts, 2)
        if rc in (124, 137):
            raise Machinery("cbmc timeout after %ds" % tmo)
        results, msgs = parse_cbmc_json(out)
        del out
        if want_trace is None:
            # cbmc embeds a full trace for every FAILED property (the canary always fails): megabytes per run that nothing reads
            for r_ in (results or []):
                r_.pop("trace", None)
        if results is None:
            raise Machinery("cbmc gave no result list (rc=%d): %s" % (rc, _tail("\n".join(msgs) or out)))
        for m in msgs:
            if "ignoring" in m:
                raise Machinery("cbmc ignored a construct: " + m)
        res["raw_results"] = results
        canary_seen = canary_failed = False
        nstep = 0
        for r in results:
            desc = r.get("description", "")
            if desc == CANARY:
                canary_seen = True
                canary_failed = r["status"] == "FAILURE"
                continue
            if "loop_invariant_step" in r.get("property", ""):
                nstep += 1
            res["obligations"] += 1
            if r["status"] == "SUCCESS":
                res["discharged"] += 1
            elif r["status"] == "FAILURE":
                sl = r.get("sourceLocation", {})
                res["failures"].append({"id": r["property"], "description": desc, "file": sl.get("file", ""),
                                        "line": sl.get("line", ""), "function": sl.get("function", "")})
            else:
                res.setdefault("undecided", []).append(r["property"] + ": " + r["status"])
        if want_trace is not None:
            res["traces"] = {r["property"]: r.get("trace", []) for r in results if r.get("trace")}
        else:
            if not canary_seen:
                raise Machinery("harness has no canary assertion")
            if ncontracts and nstep == 0:
                raise Machinery("loop contracts given but no loop_invariant_step obligation was generated")
        if res["failures"]:
            res["status"] = "fail"
        elif res.get("undecided"):
            raise Machinery("undecided obligations: " + "; ".join(res["undecided"][:5]))
        else:
            if want_trace is None and not canary_failed:
                raise Machinery("vacuous: the canary after the call is unreachable (contradictory precondition?)")
            if res["obligations"] < inst.get("min_obligations", 1):
                raise Machinery("only %d obligations, floor is %d" % (res["obligations"], inst.get("min_obligations", 1)))
            res["status"] = "pass"
        res["loops_under_contract"] = ncontracts
        res["loops_unwound"] = len(inst.get("unwind_loops", []))
    except Machinery as e:
        res["status"] = "machinery"
        res["reason"] = str(e)
    res["time_s"] = round(time.time() - t0, 2)
    res["work"] = work
    if not keep:
        shutil.rmtree(work, ignore_errors=True)
    return res


def _aslist(x):
    if x is None:
        return []
    return x if isinstance(x, list) else [x]


def _tail(s, n=1200):
    s = s.strip()
    return s[-n:]


def parse_cbmc_json(out):
    """cbmc --json-ui prints one JSON array; tolerate trailing garbage."""
    i = out.find("[")
    if i < 0:
        return None, [out[-500:]]
    try:
        doc = json.loads(out[i:])
    except Exception as e0:  # noqa
        # try to cut at last ']'
        j = out.rfind("]")
        try:
            doc = json.loads(out[i:j + 1])
        except Exception as e1:  # noqa
            return None, ["json parse: %s / %s; head=%r tail=%r" % (e0, e1, out[:200], out[-300:])]
    results = None
    msgs = []
    for e in doc:
        if isinstance(e, dict):
            if "result" in e:
                results = e["result"]
            if "messageText" in e:
                msgs.append(e["messageText"])
    return results, msgs


def trace_inputs(trace):
    """Collect __CPROVER_input steps (recorded by the wrappers through VIN/VIN_ARR)."""
    ins = {}
    for st in trace:
        if st.get("stepType") == "input":
            vals = st.get("values", [])
            if vals:
                v = vals[0]
                ins[st["inputID"]] = v.get("data", v.get("binary"))
    return ins


if __name__ == "__main__":
    import argparse
    ap = argparse.ArgumentParser()
    ap.add_argument("unit")
    ap.add_argument("--instance")
    ap.add_argument("--tier", default="quick")
    ap.add_argument("--keep", action="store_true")
    ap.add_argument("--small", action="store_true")
    ap.add_argument("--mutant")
    a = ap.parse_args()
    u = load_unit(a.unit)
    for inst in instances(u):
        if a.instance and inst["name"] != a.instance:
            continue
        mut = None
        if a.mutant:
            mut = [m for m in inst.get("mutants", []) if m["name"] == a.mutant][0]
        r = run_instance(inst, a.tier, keep=a.keep, small=a.small, mutant=mut)
        r.pop("raw_results", None)
        lg = r.pop("log")
        print(json.dumps(r, indent=1))
        for l in lg:
            print("  [%6.2fs rc=%d] %s" % (l["s"], l["rc"], l["cmd"][:200]))
