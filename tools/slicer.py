#!/usr/bin/env python3
"""Verbatim function-body slicer for /repo sources.

extract(path, sig_regex, nth) locates the nth match of sig_regex (a regex for the function's
signature, up to but excluding the opening brace), skips white space / comments / a constructor
initialiser list is NOT supported, requires '{', and returns the text strictly between the
matching braces, byte for byte.  Brace matching understands // and /* */ comments, string and
character literals.  Nothing inside the body is edited.
"""
import hashlib
import re


class SliceError(Exception):
    pass


def _skip_ws_comments(s, i):
    n = len(s)
    while i < n:
        if s[i] in " \t\r\n":
            i += 1
        elif s.startswith("//", i):
            j = s.find("\n", i)
            i = n if j < 0 else j + 1
        elif s.startswith("/*", i):
            j = s.find("*/", i + 2)
            if j < 0:
                raise SliceError("unterminated comment")
            i = j + 2
        else:
            break
    return i


def match_brace(s, i):
    """s[i] == '{'; return index of the matching '}'."""
    assert s[i] == "{"
    depth = 0
    n = len(s)
    while i < n:
        c = s[i]
        if c == "{":
            depth += 1
            i += 1
        elif c == "}":
            depth -= 1
            if depth == 0:
                return i
            i += 1
        elif s.startswith("//", i):
            j = s.find("\n", i)
            i = n if j < 0 else j + 1
        elif s.startswith("/*", i):
            j = s.find("*/", i + 2)
            if j < 0:
                raise SliceError("unterminated comment")
            i = j + 2
        elif c == '"':
            i += 1
            while i < n and s[i] != '"':
                i += 2 if s[i] == "\\" else 1
            i += 1
        elif c == "'":
            i += 1
            while i < n and s[i] != "'":
                i += 2 if s[i] == "\\" else 1
            i += 1
        else:
            i += 1
    raise SliceError("unbalanced braces")


def extract(path, sig_regex, nth=0, text=None):
    s = text if text is not None else open(path, encoding="utf-8", errors="surrogateescape").read()
    ms = list(re.finditer(sig_regex, s, re.S))
    if len(ms) <= nth:
        raise SliceError("signature not found (%d matches, need #%d): %s in %s" % (len(ms), nth, sig_regex, path))
    m = ms[nth]
    i = _skip_ws_comments(s, m.end())
    if i >= len(s) or s[i] != "{":
        raise SliceError("no '{' after signature %s in %s (found %r)" % (sig_regex, path, s[i:i + 20]))
    j = match_brace(s, i)
    body = s[i + 1:j]
    start_line = s.count("\n", 0, i + 1) + 1
    end_line = s.count("\n", 0, j) + 1
    return {
        "body": body,
        "start_line": start_line,
        "end_line": end_line,
        "sig_line": s.count("\n", 0, m.start()) + 1,
        "signature": " ".join(m.group(0).split()),
        "sha256": hashlib.sha256(body.encode("utf-8", "surrogateescape")).hexdigest(),
    }


def extract_region(path, start_regex, end_regex, text=None, nth=0):
    """Verbatim region between two must-match regexes (exclusive of the end match); nth selects the nth start match."""
    s = text if text is not None else open(path, encoding="utf-8", errors="surrogateescape").read()
    ms = list(re.finditer(start_regex, s, re.S))
    if len(ms) <= nth:
        raise SliceError("region start not found (%d matches, need #%d): %s in %s" % (len(ms), nth, start_regex, path))
    m = ms[nth]
    e = re.compile(end_regex, re.S).search(s, m.end())
    if not e:
        raise SliceError("region end not found: %s in %s" % (end_regex, path))
    body = s[m.start():e.start()]
    return {
        "body": body,
        "start_line": s.count("\n", 0, m.start()) + 1,
        "end_line": s.count("\n", 0, e.start()) + 1,
        "sig_line": s.count("\n", 0, m.start()) + 1,
        "signature": "region " + start_regex,
        "sha256": hashlib.sha256(body.encode("utf-8", "surrogateescape")).hexdigest(),
    }


if __name__ == "__main__":
    import sys
    r = extract(sys.argv[1], sys.argv[2], int(sys.argv[3]) if len(sys.argv) > 3 else 0)
    print("// lines %d-%d sha256 %s" % (r["start_line"], r["end_line"], r["sha256"]))
    print(r["body"])
