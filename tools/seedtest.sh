#!/bin/bash
# seedtest.sh <seed-id> <Cxx> [tier]   - run a property's check against a scratch worktree of /repo with the seeded patch applied
# (equivalent to `git -C /repo apply` + check + `git -C /repo checkout -- .`, but does not disturb /repo while other work uses it)
set -u
ID=$1; P=$2; TIER=${3:-quick}
WT=/tmp/seedtest_$ID
git -C /repo worktree remove --force $WT 2>/dev/null
git -C /repo worktree add -q --detach $WT HEAD || exit 2
git -C $WT apply /verif/seeded/$ID/patch.diff 2>/dev/null || git -C $WT apply /verif/seeded/$ID/patch_rebased.diff || { echo "patch does not apply"; git -C /repo worktree remove --force $WT; exit 2; }
cd /verif && VERIF_REPO=$WT bin/check $P --tier $TIER --no-evidence 2>&1 | cut -c1-400 | tail -${TAIL:-12}
RC=${PIPESTATUS[0]}
git -C /repo worktree remove --force $WT
echo "seed $ID on $P: exit $RC"
