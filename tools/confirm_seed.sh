#!/bin/bash
# confirm_seed.sh <worktree> <k> <seed-id> [extra link libs]
# Confirms a seeded change in its scratch worktree: patch applies, library builds, the full test suite passes,
# the demo FAILS with the patch and PASSES without; then stores it under /verif/seeded/<seed-id>/.
set -u
WT=$1; K=$2; ID=$3; LIBS=${4:-"-lgmp -lmpfr -lz -ltbb"}
S=$WT/seed_out/$K
cd $WT || exit 2
git checkout -q -- src; git apply --check $S/patch.diff || { echo "patch does not apply"; exit 2; }
git apply $S/patch.diff
cmake --build _build -j8 2>&1 | tail -1
T=$(ctest --test-dir _build -j8 --timeout 900 2>&1 | grep "tests passed")
echo "with patch: $T"
DEMO=$(ls $S/demo.c* | head -1)
g++ -std=c++14 -I$WT/src -I$WT/_build $DEMO $WT/_build/lib/libsoplex.a $LIBS -o /tmp/demo_$ID 2>&1 | tail -3
(cd $S && /tmp/demo_$ID > /tmp/demo_$ID.with 2>&1); RC_WITH=$?
git checkout -q -- src
cmake --build _build -j8 2>&1 | tail -1
g++ -std=c++14 -I$WT/src -I$WT/_build $DEMO $WT/_build/lib/libsoplex.a $LIBS -o /tmp/demo_$ID 2>&1 | tail -3
(cd $S && /tmp/demo_$ID > /tmp/demo_$ID.without 2>&1); RC_WITHOUT=$?
echo "demo rc with patch: $RC_WITH, without: $RC_WITHOUT"
rm -f /tmp/demo_$ID
if [[ "$T" == *"100% tests passed"* && $RC_WITH -ne 0 && $RC_WITHOUT -eq 0 ]]; then
  mkdir -p /verif/seeded/$ID
  cp $S/patch.diff $DEMO $S/README.txt /verif/seeded/$ID/
  tail -5 /tmp/demo_$ID.with > /verif/seeded/$ID/demo_output_with_patch.txt
  echo "CONFIRMED $ID"
else
  echo "NOT CONFIRMED $ID"
fi
rm -f /tmp/demo_$ID.with /tmp/demo_$ID.without
