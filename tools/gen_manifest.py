#!/usr/bin/env python3
"""Regenerate MANIFEST.json from props/*.json (claimed properties) and props/NOT_APPLICABLE.json."""
import json, os
V = os.path.dirname(os.path.dirname(os.path.abspath(__file__)))
ids = [json.loads(l)["id"] for l in open(os.path.join(V, "properties.jsonl"))]
na = json.load(open(os.path.join(V, "props", "NOT_APPLICABLE.json")))
claimed = json.load(open(os.path.join(V, "props", "CLAIMED.json")))   # only properties whose check is green are registered
checks, notapp = [], []
for i in ids:
    p = os.path.join(V, "props", i + ".json")
    if os.path.exists(p) and i not in na and i in claimed:
        d = json.load(open(p))
        checks.append({
            "property_id": i,
            "quick_cmd": "bin/check %s --tier quick" % i,
            "thorough_cmd": "bin/check %s --tier thorough" % i,
            "evidence_file": "/verif/evidence/%s.json" % i,
            "replay_cmd_template": "python3 tools/show_replay.py {path}",
            "engine": "cbmc-contracts",
            "level_claimed": {"category": "proof", "text": d["level_text"], "design_ref": d.get("design_ref", "DESIGN.md section 4 (%s)" % i)},
            "level_note": d["level_note"],
            "technique": d.get("technique", "CBMC function and loop contracts (goto-instrument --dfcc, SAT) on function bodies sliced verbatim from /repo"),
        })
    else:
        notapp.append({"property_id": i, "reason": na.get(i, "check not built yet")})
m = {
    "version": 1,
    "setup_cmd": "true",
    "hooks": {"guard": "SOPLEX_VERIF",
              "enable": "none needed: proof units slice function bodies out of /repo/src on every run; no instrumentation lives in /repo",
              "baseline_off_cmd": "cmake --build /repo/_build -j16 && ctest --test-dir /repo/_build -j8 --timeout 900",
              "source_commits": [], "add_only": True},
    "engines": [{"name": "cbmc-contracts", "path": "/verif/tools", "serves_properties": [c["property_id"] for c in checks],
                 "kind_free_text": "contract-based deductive verification: slicer (verbatim bodies) + goto-cc + goto-instrument --dfcc (function + loop contracts) + cbmc SAT; native replay of counterexamples against the real code"}],
    "checks": checks,
    "not_applicable": notapp,
    "notes": "See DESIGN.md. Exit codes of every check: 0 pass, 1 VIOLATION, 2 MACHINERY (undecided: extraction break, tool error, timeout) - never reported as a violation.",
}
json.dump(m, open(os.path.join(V, "MANIFEST.json"), "w"), indent=1)
print("claimed:", [c["property_id"] for c in checks], "n/a:", [n["property_id"] for n in notapp])
