#!/bin/bash
# confirm_round2.sh <group>   - confirm all seeds of /tmp/seed_<group>/seed_out/<k> and store them as seeded/R2-<Cxx>-<group><k>
G=$1; WT=/tmp/seed_$G
for K in 1 2 3 4 5 6; do
  S=$WT/seed_out/$K
  [ -f $S/patch.diff ] || continue
  P=$(head -1 $S/README.txt | sed -n 's/^PROPERTY: *\(C[0-9]*\).*/\1/p')
  [ -n "$P" ] || P=C00
  ID=R2-$P-$G$K
  LIBS="-lgmp -lmpfr -lz -ltbb"
  cd /tmp && /verif/tools/confirm_seed.sh $WT $K $ID "$LIBS" 2>&1 | tail -2
  if [ -d /verif/seeded/$ID ]; then
    python3 - "$ID" "$P" "$S" <<'PY'
import json,sys,re
sid,prop,s=sys.argv[1:4]
readme=open(s+'/README.txt',errors='replace').read()
patch=open(s+'/patch.diff',errors='replace').read()
files=sorted(set(re.findall(r'^\+\+\+ b/(\S+)',patch,re.M)))
funcs=sorted(set(re.findall(r'^@@.*@@ (.*)$',patch,re.M)))
json.dump({"seed":sid,"property":prop,"change":"round-2 seed in %s (%s)"%(", ".join(files),"; ".join(f.strip()[:90] for f in funcs[:3])),
 "needs_to_manifest":" ".join(readme.split("\n")[1:6])[:400],
 "confirmed_by":"tools/confirm_round2.sh -> tools/confirm_seed.sh in the seeder's scratch worktree: patch applies, library builds, ctest 468/468 pass with the patch, demo exits non-zero with the patch and 0 without",
 "check_run":"tools/seedtest.sh %s %s"%(sid,prop),"origin":"independent sub-agent (second round) given only the property texts and its own scratch worktree"},open('/verif/seeded/%s/meta.json'%sid,'w'),indent=1)
PY
  fi
done
