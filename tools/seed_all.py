#!/usr/bin/env python3
"""Run every stored seeded change against the check of its property (scratch worktree, /repo untouched) and write
seeded/RESULTS.json: exit code, VIOLATION / MACHINERY lines.  usage: seed_all.py [tier] [seed-id-prefix]"""
import json, os, subprocess, sys
V = os.path.dirname(os.path.dirname(os.path.abspath(__file__)))
tier = sys.argv[1] if len(sys.argv) > 1 else "quick"
pref = sys.argv[2] if len(sys.argv) > 2 else ""
claimed = set(json.load(open(os.path.join(V, "props", "CLAIMED.json"))))
resp = os.path.join(V, "seeded", "RESULTS.json")
res = json.load(open(resp)) if os.path.exists(resp) else {}
for sid in sorted(os.listdir(os.path.join(V, "seeded"))):
    d = os.path.join(V, "seeded", sid)
    if not os.path.isdir(d) or not sid.startswith(pref) or sid == "refactorings":
        continue
    if os.environ.get("ONLY_NOT_CAUGHT") and res.get(sid, {}).get("exit") == 1:
        continue        # re-run only what was missed / undecided the last time
    meta = json.load(open(os.path.join(d, "meta.json"))) if os.path.exists(os.path.join(d, "meta.json")) else {"property": sid[:3]}
    prop = meta["property"]
    if prop not in claimed:
        res[sid] = {"property": prop, "result": "property not claimed yet"}
        continue
    env = dict(os.environ, TAIL="40")
    p = subprocess.run([os.path.join(V, "tools", "seedtest.sh"), sid, prop, tier], stdout=subprocess.PIPE, stderr=subprocess.STDOUT, env=env)
    out = p.stdout.decode("utf-8", "replace").splitlines()
    rc = [l for l in out if l.startswith("seed ")]
    code = int(rc[-1].rsplit(" ", 1)[1]) if rc else -1
    res[sid] = {"property": prop, "tier": tier, "exit": code,
                "result": "caught (VIOLATION)" if code == 1 else ("undecided (MACHINERY, exit 2)" if code == 2 else "missed" if code == 0 else "error"),
                "failed_obligations": [l[19:] for l in out if l.startswith("failed obligation:")][:4],
                "violation_lines": [l for l in out if l.startswith("VIOLATION")][:4],
                "machinery": [l for l in out if l.startswith("MACHINERY")][:3]}
    print(sid, res[sid]["result"])
    json.dump(res, open(resp, "w"), indent=1, sort_keys=True)
