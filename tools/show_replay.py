#!/usr/bin/env python3
"""Print a replay file: failed obligation, counterexample inputs, native replay outcome."""
import json, sys
d = json.load(open(sys.argv[1]))
print("property %s  unit %s/%s  %s" % (d.get("property"), d.get("unit"), d.get("instance"), d.get("function", "")))
for f in d.get("failed_obligations", d.get("failures", [])):
    print("  failed:", f.get("id"), f.get("description"), "%s:%s" % (f.get("file"), f.get("line")))
print("  inputs (%s):" % d.get("trace_kind", ""), d.get("inputs"))
n = d.get("native", {})
print("  native replay ran=%s rc=%s confirmed_on_real_code=%s" % (n.get("ran"), n.get("rc"), d.get("confirmed_on_real_code")))
if n.get("output"):
    print(n["output"][:1500])
for l in d.get("verifier_output", []):
    print("  cbmc:", l)
sys.exit(1 if d.get("confirmed_on_real_code") else 0)
