#!/usr/bin/env python3
"""Property driver:  check.py <Cxx> --tier quick|thorough

Runs every proof-unit instance registered for the property in props/<Cxx>.json against /repo's
current working tree, writes evidence/<Cxx>.json, prints
   VIOLATION property=<id> replay=<path>[ no-failing-input-found]     and exits 1, or
   MACHINERY: ...                                                       and exits 2, or exits 0.
"""
import argparse
import concurrent.futures as cf
import hashlib
import json
import os
import random
import re
import shutil
import subprocess
import sys
import time

sys.path.insert(0, os.path.dirname(os.path.abspath(__file__)))
import unitrun  # noqa: E402
from unitrun import VERIF, REPO  # noqa: E402


def _h(s):
    return hashlib.sha1(s.encode()).hexdigest()[:10]


def load_known():
    p = os.path.join(VERIF, "known_findings.json")
    if not os.path.exists(p):
        return []
    return json.load(open(p)).get("findings", [])


def known_match(known, prop, res, failure):
    for k in known:
        if k.get("status") != "open" or k.get("property") != prop:
            continue
        if k.get("unit") != res["unit"] or k.get("instance") != res["instance"]:
            continue
        if re.search(k["obligation"], failure["id"] + " " + failure["description"] + " " + str(failure["file"]) + ":" + str(failure["line"])):
            return k
    return None


def rank_failure(f):
    """Prefer obligations located in the real source, then postconditions, then the rest."""
    if f["file"].startswith(REPO):
        return 0
    if "postcondition" in f["id"]:
        return 1
    if f["file"].startswith("<builtin"):
        return 3
    return 2


def scope_bounded(inst):
    """Is an instance with completely unwound loops exhaustive only up to a verification cap?  unit.json key "scope_bounded":
    false = the unwound loops are bounded by a constant of the real code (or listed for the loop census only), true / absent =
    bounded by the object-size cap (the conservative default), a string = regex: bounded iff an unwound loop's function matches."""
    v = inst.get("scope_bounded", True)
    if isinstance(v, str):
        return any(re.search(v, l.get("function", "")) for l in inst.get("unwind_loops", []))
    return bool(v)


def do_replay(prop, inst, res, scratch):
    """Small-scope re-query for a counterexample, then native replay against the real code."""
    rp_dir = os.path.join(VERIF, "replays", prop)
    os.makedirs(rp_dir, exist_ok=True)
    rp = os.path.join(rp_dir, "%s-%s.json" % (res["unit"], res["instance"]))
    fails = sorted(res["failures"], key=rank_failure)
    doc = {"property": prop, "unit": res["unit"], "instance": res["instance"], "function": res.get("function", ""),
           "failed_obligations": fails, "slices": res["slices"], "inputs": {}, "small_scope": None,
           "native": {"ran": False}, "verifier_output": []}
    trace_res = None
    # 1. genuine executions: small scope, loops unwound instead of abstracted by their contracts
    # 2. otherwise the verifier's own trace (with loop contracts it may be a counterexample to
    #    induction, i.e. start from a havoc'd loop state; it is recorded but labelled as such)
    attempts = ([(True, True)] if inst.get("defines_small") else []) + [(False, False)]
    if not inst.get("loops") and not inst.get("defines_small"):
        attempts = [(False, False)]
    if not inst.get("replay"):
        attempts = attempts[-1:]      # no native driver to feed: one trace for the replay file is enough
    inst = dict(inst)
    inst["timeout_s"] = min(int(inst.get("timeout_s", 300)), 300)     # the search for a trace must not dominate the run
    for small, concrete in attempts:
        r = unitrun.run_instance(inst, tier="quick", scratch=scratch, small=small, want_trace=[], keep=False, concrete=concrete)
        if r["status"] == "fail" and r.get("traces"):
            trace_res = r
            doc["small_scope"] = small
            doc["trace_kind"] = "execution (small scope, loops unwound)" if concrete else ("verifier trace" + (" (may start from a havoc'd loop state)" if inst.get("loops") else ""))
            break
    target = None
    if trace_res:
        tf = sorted(trace_res["failures"], key=rank_failure)
        for f in tf:
            if f["id"] in trace_res["traces"]:
                target = f
                break
        if target:
            doc["counterexample_for"] = target
            doc["inputs"] = unitrun.trace_inputs(trace_res["traces"][target["id"]])
        doc["verifier_output"] = ["%s: %s [%s:%s]" % (f["id"], f["description"], f["file"], f["line"]) for f in tf]
    else:
        doc["verifier_output"] = ["%s: %s [%s:%s]" % (f["id"], f["description"], f["file"], f["line"]) for f in fails]
    confirmed = False
    rspec = inst.get("replay")
    if rspec and doc["inputs"]:
        confirmed, ninfo = native_replay(inst, rspec, doc["inputs"], res["instance"], scratch)
        doc["native"] = ninfo
    doc["confirmed_on_real_code"] = confirmed
    json.dump(doc, open(rp, "w"), indent=1)
    return rp, confirmed


def gen_config_h(incdir):
    os.makedirs(os.path.join(incdir, "soplex"), exist_ok=True)
    cm = open(os.path.join(REPO, "CMakeLists.txt"), errors="replace").read()
    ver = {}
    for k in ("MAJOR", "MINOR", "PATCH"):
        m = re.search(r"set\s*\(\s*SOPLEX_VERSION_%s\s+(\d+)" % k, cm)
        ver[k] = m.group(1) if m else "0"
    with open(os.path.join(incdir, "soplex", "config.h"), "w") as f:
        f.write("#ifndef __SPXCONFIG_H__\n#define __SPXCONFIG_H__\n#define SOPLEX_BUILD_TYPE \"verif-replay\"\n")
        for k in ("MAJOR", "MINOR", "PATCH"):
            f.write("#define SOPLEX_VERSION_%s %s\n" % (k, ver[k]))
        f.write("#define SOPLEX_WITH_BOOST\n#define SOPLEX_WITH_GMP\n#define SOPLEX_WITH_MPFR\n#define SOPLEX_WITH_ZLIB\n#endif\n")


def native_replay(inst, rspec, inputs, instance, scratch):
    """Compile the unit's replay driver against /repo's current headers/sources and run it on the
    counterexample.  Exit 1 of the driver (or a sanitizer report) = the real code violates."""
    d = os.path.join(scratch, "native_%s_%s" % (inst["_name"], instance))
    shutil.rmtree(d, ignore_errors=True)
    os.makedirs(d)
    info = {"ran": False}
    try:
        gen_config_h(os.path.join(d, "inc"))
        with open(os.path.join(d, "inc", "soplex", "git_hash.cpp"), "w") as f:   # generated by the build, not tracked
            f.write('#define SPX_GITHASH "verif-replay"\n')
        with open(os.path.join(d, "inputs.txt"), "w") as f:
            for k, v in inputs.items():
                f.write("%s %s\n" % (k, v))
        # "LIB" = the non-template translation units of the library, compiled from the CURRENT tree (not /repo/_build)
        libset = ["src/soplex/%s.cpp" % n for n in ("didxset", "idxset", "mpsinput", "nameset", "spxdefines", "spxgithash", "spxid", "spxout", "usertimer", "wallclocktimer")]
        extra = []
        for s in rspec.get("extra_src", []):
            extra += libset if s == "LIB" else [s]
        srcs = [os.path.join(inst["_dir"], rspec["cpp"])] + [os.path.join(REPO, s) for s in extra]
        cmd = ["g++", "-std=c++14", "-g", "-O0", "-DREPLAY_NATIVE", "-DREPLAY_INSTANCE_%s" % instance,
               "-I", os.path.join(d, "inc"), "-I", os.path.join(REPO, "src"), "-I", os.path.join(VERIF, "stubs", "native"), "-I", inst["_dir"]]
        if rspec.get("ndebug"):
            cmd += ["-DNDEBUG"]
        if rspec.get("asan", True):
            cmd += ["-fsanitize=address,undefined", "-fno-sanitize-recover=undefined"]
        cmd += srcs + ["-o", os.path.join(d, "replay")] + rspec.get("libs", ["-lgmp", "-lmpfr", "-lz"])
        p = subprocess.run(cmd, stdout=subprocess.PIPE, stderr=subprocess.STDOUT, timeout=900)
        if p.returncode != 0:
            info["build_error"] = p.stdout.decode("utf-8", "replace")[-1500:]
            return False, info
        p = subprocess.run([os.path.join(d, "replay"), os.path.join(d, "inputs.txt"), instance],
                           stdout=subprocess.PIPE, stderr=subprocess.STDOUT, timeout=300)
        out = p.stdout.decode("utf-8", "replace")
        info.update({"ran": True, "rc": p.returncode, "output": out[-3000:], "cmd": " ".join(cmd)})
        # exit 1 of the driver, a sanitizer report, or an assertion of the real code firing on this input
        confirmed = p.returncode == 1 or "AddressSanitizer" in out or "runtime error" in out or re.search(r"Assertion .* failed", out) is not None
        return confirmed, info
    except Exception as e:  # noqa
        info["error"] = str(e)
        return False, info
    finally:
        shutil.rmtree(d, ignore_errors=True)


def run_bounded(spec, tier, scratch):
    """Bounded stand-in: an external script that prints one JSON line {status, cases, bound, failures:[...]}"""
    cmd = [os.path.join(VERIF, spec["cmd"]), "--tier", tier, "--scratch", scratch]
    t0 = time.time()
    try:
        p = subprocess.run(cmd, stdout=subprocess.PIPE, stderr=subprocess.PIPE, timeout=spec.get("timeout_s", 1800))
        line = p.stdout.decode().strip().splitlines()[-1]
        r = json.loads(line)
    except Exception as e:  # noqa
        r = {"status": "machinery", "reason": "bounded stand-in %s: %s" % (spec["name"], e)}
    r["name"] = spec["name"]
    r["time_s"] = round(time.time() - t0, 2)
    return r


def main():
    ap = argparse.ArgumentParser()
    ap.add_argument("prop")
    ap.add_argument("--tier", default=os.environ.get("VERIF_TIER", "quick"))
    ap.add_argument("--only", help="unit[:instance] filter (development)")
    ap.add_argument("--jobs", type=int, default=int(os.environ.get("VERIF_JOBS", "14")))
    ap.add_argument("--no-evidence", action="store_true")
    ap.add_argument("--write-baseline", action="store_true", help="record the obligations discharged on the pinned tree in baselines/<Cxx>.json")
    a = ap.parse_args()
    t0 = time.time()
    seed = int(os.environ.get("VERIF_SEED", "0") or 0)
    prop = a.prop
    pdoc = json.load(open(os.path.join(VERIF, "props", prop + ".json")))
    scratch = "/var/tmp/soplex-verif.%d" % os.getpid()
    shutil.rmtree(scratch, ignore_errors=True)
    os.makedirs(scratch)
    rc = 0
    try:
        jobs = []
        for ue in pdoc["units"]:
            u = unitrun.load_unit(ue["unit"])
            for inst in unitrun.instances(u):
                if ue.get("instances") and inst["name"] not in ue["instances"]:
                    continue
                itier = inst.get("tier", ue.get("tier", "quick"))
                if a.tier == "quick" and itier != "quick":
                    continue
                if a.only:
                    fu, _, fi = a.only.partition(":")
                    if fu != inst["_name"] or (fi and fi != inst["name"]):
                        continue
                jobs.append((inst, None))
                if a.tier == "thorough":
                    for mu in inst.get("mutants", []):
                        jobs.append((inst, mu))
        random.Random(seed).shuffle(jobs)
        # longest first where known
        jobs.sort(key=lambda j: -j[0].get("expected_s", 10))
        results = []
        with cf.ThreadPoolExecutor(max_workers=a.jobs) as ex:
            futs = {ex.submit(unitrun.run_instance, inst, a.tier, scratch, False, mu): (inst, mu) for inst, mu in jobs}
            for fu in cf.as_completed(futs):
                inst, mu = futs[fu]
                r = fu.result()
                r["_inst"] = inst
                r["_mutant"] = mu
                if mu:
                    r.pop("raw_results", None)      # only the verdict of a mutant run is used
                else:
                    # keep what evidence, samples and baselines need; drop source locations' bulk
                    r["raw_results"] = [{"property": x.get("property", ""), "description": x.get("description", ""), "status": x.get("status", ""),
                                         "sourceLocation": {"file": x.get("sourceLocation", {}).get("file", ""), "line": x.get("sourceLocation", {}).get("line", "")}}
                                        for x in r.get("raw_results", [])]
                results.append(r)
        # tool hiccups under load (a killed goto-instrument, a missing b.gb) are retried once, alone
        for k, r in enumerate(list(results)):
            if r["status"] == "machinery" and not re.search(r"slice|signature|conformance|constant|loop structure|does not apply|resolves to", r["reason"]):
                r2 = unitrun.run_instance(r["_inst"], a.tier, scratch, False, r["_mutant"])
                r2["_inst"], r2["_mutant"] = r["_inst"], r["_mutant"]
                r2["retried_after"] = r["reason"][:200]
                results[k] = r2
        # The code's loop structure no longer matches the loop contracts (a loop was added, merged or removed, or a local the
        # invariants name was renamed): the unbounded proof cannot be attempted.  Stand-in: the same function contract in small
        # scope with all loops unwound (every trace is an execution).  A failure there is a violation with a concrete
        # counterexample; a pass decides the instance for the small scope only - it is reported as held, labelled bounded, and
        # the evidence says why; an incomplete unwinding leaves the instance undecided (exit 2).
        for k, r in enumerate(list(results)):
            if r["status"] == "machinery" and not r["_mutant"] and re.search(r"loop structure changed|does not exist \(loop|resolves to \d+ symbols", r["reason"]):
                inst2 = dict(r["_inst"]); inst2["loops"] = []; inst2["unwind_loops"] = []
                inst2["timeout_s"] = min(int(inst2.get("timeout_s", 300)), 240)
                r2 = unitrun.run_instance(inst2, a.tier, scratch, bool(inst2.get("defines_small")), None, None, False, True)
                note = "loop contracts no longer match the code (%s)" % r["reason"][:160]
                incomplete = [f for f in r2.get("failures", []) if "unwind" in f["id"] or "unwinding" in f["description"]]
                if r2["status"] == "fail" and not incomplete:
                    r2["_inst"], r2["_mutant"] = r["_inst"], None
                    r2["bounded_fallback"] = note + "; failure found by the bounded stand-in: small scope, loops unwound"
                    results[k] = r2
                elif r2["status"] == "pass":
                    r2["_inst"], r2["_mutant"] = r["_inst"], None
                    r2["bounded_fallback"] = note + "; decided by the bounded stand-in only: small scope, loops unwound - held there"
                    r2["loops_unwound"] = max(1, r2.get("loops_unwound", 0))
                    print("NOTE: %s/%s: %s" % (r["unit"], r["instance"], r2["bounded_fallback"][:300]))
                    results[k] = r2
                else:
                    r["reason"] += " | bounded stand-in (small scope, loops unwound): %s %s" % (r2["status"], (r2["reason"] or "unwinding incomplete")[:120])
        bounded = [run_bounded(b, a.tier, scratch) for b in pdoc.get("bounded", []) if not a.only]

        known = load_known()
        machinery, violations, known_lines = [], [], []
        obligations = discharged = 0
        capped_obl = capped_dis = capped_known = 0
        capped_inst = []
        known_obls = []
        units_ev, samples, mut_ev = [], [], []
        for r in sorted(results, key=lambda r: (r["unit"], r["instance"], (r["_mutant"] or {}).get("name", ""))):
            inst, mu = r["_inst"], r["_mutant"]
            if mu:
                # seeded-fault self-test: a mutant must be refuted
                ok = r["status"] == "fail"
                mut_ev.append({"unit": r["unit"], "instance": r["instance"], "mutant": mu["name"], "refuted": ok,
                               "by": [f["id"] for f in r["failures"]][:4], "status": r["status"], "reason": r["reason"][:300]})
                if not ok:
                    machinery.append("seeded fault %s/%s/%s survived (%s %s)" % (r["unit"], r["instance"], mu["name"], r["status"], " | ".join(r["reason"].splitlines()[:3])[:200]))
                continue
            if r["status"] == "machinery":
                machinery.append("%s/%s: %s" % (r["unit"], r["instance"], " | ".join(r["reason"].splitlines()[:6])[:700]))
            obligations += r["obligations"]
            discharged += r["discharged"]
            if r.get("loops_unwound", 0) > 0 and (r.get("bounded_fallback") or scope_bounded(r["_inst"])):
                # loops closed by complete unwinding up to the size cap, not by a loop contract: exhaustive up to the cap only
                capped_obl += r["obligations"]
                capped_dis += r["discharged"]
                capped_inst.append("%s/%s (%d loops unwound)" % (r["unit"], r["instance"], r.get("loops_unwound", 0)))
            uev = {k: r[k] for k in ("unit", "instance", "function", "status", "obligations", "discharged", "solver_s", "time_s", "rmode", "backend", "slices")}
            uev["loops_under_contract"] = r.get("loops_under_contract", 0)
            uev["loops_unwound_completely"] = r.get("loops_unwound", 0)
            if r["status"] == "machinery":
                uev["reason"] = r["reason"]
            if r.get("bounded_fallback"):
                uev["bounded_fallback"] = r["bounded_fallback"]
            units_ev.append(uev)
            if r["status"] == "pass":
                rr = r.get("raw_results", [])
                rnd = random.Random(seed + len(samples))
                picks = [x for x in rr if x.get("description") != unitrun.CANARY and ("postcondition" in x["property"] or "loop_invariant" in x["property"])]
                picks = picks or rr
                for x in rnd.sample(picks, min(2, len(picks))):
                    sl = x.get("sourceLocation", {})
                    samples.append("%s/%s %s: %s [%s:%s] %s" % (r["unit"], r["instance"], x["property"], x.get("description", ""), sl.get("file", ""), sl.get("line", ""), x["status"]))
            if r["status"] == "fail":
                unknown = []
                for f in r["failures"]:
                    k = known_match(known, prop, r, f)
                    if k:
                        known_lines.append("KNOWN-FINDING: property=%s %s" % (prop, k["what"]))
                        known_obls.append("%s/%s %s: %s [%s:%s]" % (r["unit"], r["instance"], f["id"], f["description"], f["file"], f["line"]))
                        if r.get("loops_unwound", 0) > 0 and (r.get("bounded_fallback") or scope_bounded(r["_inst"])):
                            capped_known += 1
                    else:
                        unknown.append(f)
                if unknown:
                    r["failures"] = sorted(unknown, key=rank_failure)
                    rp, confirmed = do_replay(prop, inst, r, scratch)
                    violations.append((r, rp, confirmed))
        for b in bounded:
            if b.get("status") == "machinery":
                machinery.append(b.get("reason", b["name"]))
            elif b.get("status") == "fail":
                rp_dir = os.path.join(VERIF, "replays", prop)
                os.makedirs(rp_dir, exist_ok=True)
                unknown = []
                for f in b.get("failures", []):
                    kk = [k for k in known if k.get("status") == "open" and k.get("property") == prop and k.get("unit") == b["name"] and re.search(k["obligation"], f.get("id", ""))]
                    if kk:
                        known_lines.append("KNOWN-FINDING: property=%s %s" % (prop, kk[0]["what"]))
                    else:
                        unknown.append(f)
                if unknown:
                    rp = os.path.join(rp_dir, "bounded-%s.json" % b["name"])
                    json.dump({"property": prop, "bounded_check": b["name"], "failures": unknown, "confirmed_on_real_code": True}, open(rp, "w"), indent=1)
                    violations.append(({"unit": "bounded:" + b["name"], "instance": "", "failures": unknown}, rp, True))

        bl_path = os.path.join(VERIF, "baselines", prop + ".json")
        baseline = json.load(open(bl_path)) if os.path.exists(bl_path) else {}
        if a.write_baseline and not a.only and not violations and not machinery:
            bl = {}
            for r in results:
                if r["_mutant"] or r["status"] != "pass":
                    continue
                bl["%s/%s" % (r["unit"], r["instance"])] = {
                    "slices": {s["as"]: s.get("sha256", "") for s in r["slices"]},
                    "discharged": sorted({_h("%s|%s" % (x["property"].rsplit(".", 1)[0], x.get("description", ""))) for x in r.get("raw_results", []) if x["status"] == "SUCCESS"})}
            os.makedirs(os.path.dirname(bl_path), exist_ok=True)
            json.dump(bl, open(bl_path, "w"), indent=0, sort_keys=True)
            print("baseline written: %s (%d instances)" % (bl_path, len(bl)))
        for r, rp, confirmed in violations:
            # annotate the replay file: was this obligation discharged on the pinned tree, which slices changed since
            key = "%s/%s" % (r["unit"], r["instance"])
            b = baseline.get(key)
            note = {"baseline_available": b is not None}
            if b is not None:
                note["slices_changed_since_baseline"] = [s["as"] for s in r.get("slices", []) if b["slices"].get(s["as"]) not in (None, s.get("sha256", ""))]
                note["failed_obligations_discharged_at_baseline"] = [f["id"] for f in r["failures"] if _h("%s|%s" % (f["id"].rsplit(".", 1)[0], f["description"])) in set(b["discharged"])]
            try:
                d = json.load(open(rp)); d["baseline"] = note; json.dump(d, open(rp, "w"), indent=1)
            except Exception:  # noqa
                pass
        for l in sorted(set(known_lines)):
            print(l)
        for r, rp, confirmed in violations:
            f0 = r["failures"][0]
            print("failed obligation: %s/%s %s: %s [%s:%s]" % (r["unit"], r["instance"], f0.get("id", ""), f0.get("description", ""), f0.get("file", ""), f0.get("line", "")))
            print("VIOLATION property=%s replay=%s%s" % (prop, rp, "" if confirmed else " no-failing-input-found"))
        for m in machinery:
            print("MACHINERY: " + m)
        if violations:
            rc = 1
        elif machinery:
            rc = 2
        n_inst = len(units_ev)
        print("%s %s: %d unit instances, %d/%d obligations discharged, %d violations, %d machinery problems, %.0fs" % (
            prop, a.tier, n_inst, discharged, obligations, len(violations), len(machinery), time.time() - t0))

        if not a.no_evidence and not a.only:
            trusted = list(pdoc.get("trusted_base", []))
            for ue in pdoc["units"]:
                u = unitrun.load_unit(ue["unit"])
                for t in u.get("trusted", []):
                    s = "%s: %s" % (ue["unit"], t)
                    if s not in trusted:
                        trusted.append(s)
            assume_scan = scan_assumes(pdoc)
            ev = {
                "property_id": prop, "tier": a.tier, "seed": seed, "level": "proof",
                "coverage": {
                    # obligations that fail ONLY because of a listed open known finding are reported separately: the proof-level
                    # claim of this run is about all the others (obligations == discharged), the findings stay visible below
                    # instances whose loops are closed by complete unwinding up to the object-size cap (not by a loop contract) are
                    # bounded: their obligations are listed separately and are not part of the proof-level counts
                    "obligations": obligations - capped_obl - (len(known_obls) - capped_known), "discharged": discharged - capped_dis,
                    "obligations_generated_in_total": obligations,
                    "bounded_by_complete_unwinding_not_counted_as_proof": {"instances": capped_inst, "obligations": capped_obl, "discharged": capped_dis},
                    "obligations_failing_for_an_open_known_finding": known_obls,
                    "checker_cmd": "goto-cc (C++ slices + C contracts) | goto-instrument --dfcc <harness> --enforce-contract <w_fn> [--replace-call-with-contract g] --apply-loop-contracts --loop-contracts-file loops.json | cbmc --bounds-check --pointer-check [--signed-overflow-check] (SAT back end); driver: /verif/bin/check %s --tier %s" % (prop, a.tier),
                    "trusted_base": trusted,
                    "samples": samples[:24],
                    "functions_under_contract": sorted({u["function"] for u in units_ev if u["function"]}),
                    "units": units_ev,
                    "solver_s_total": round(sum(u["solver_s"] for u in units_ev), 1),
                    "seeded_fault_selftest": mut_ev,
                    "bounded_standins_not_counted_as_proof": bounded,
                    "assume_and_nondet_scan": assume_scan,
                    "links_not_covered": pdoc.get("not_covered", []),
                    "known_findings_reported": sorted(set(known_lines)),
                    "machinery_problems": machinery,
                },
                "assumptions": pdoc.get("assumptions", []) + ["every __CPROVER_assume / nondet stub found by the mechanical scan is listed under coverage.assume_and_nondet_scan"],
                "wall_s": round(time.time() - t0, 1),
                "violations": len(violations),
            }
            os.makedirs(os.path.join(VERIF, "evidence"), exist_ok=True)
            json.dump(ev, open(os.path.join(VERIF, "evidence", prop + ".json"), "w"), indent=1)
    finally:
        shutil.rmtree(scratch, ignore_errors=True)
    sys.exit(rc)


def scan_assumes(pdoc):
    """Mechanical scan for assumptions in units and stubs used by this property."""
    out = []
    files = set()
    for ue in pdoc["units"]:
        d = os.path.join(VERIF, "units", ue["unit"])
        for fn in os.listdir(d):
            if fn.endswith((".cpp", ".c", ".h")) and not fn.startswith("replay"):
                files.add(os.path.join(d, fn))
    for fn in os.listdir(os.path.join(VERIF, "stubs")):
        p = os.path.join(VERIF, "stubs", fn)
        if os.path.isfile(p):
            files.add(p)
    for p in sorted(files):
        try:
            for n, line in enumerate(open(p, errors="replace"), 1):
                if re.search(r"__CPROVER_assume|nondet_\w+\s*\(", line) and not line.lstrip().startswith(("//", "/*", "*")):
                    out.append("%s:%d: %s" % (os.path.relpath(p, VERIF), n, line.strip()[:160]))
        except OSError:
            pass
    return out


if __name__ == "__main__":
    main()
