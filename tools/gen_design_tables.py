#!/usr/bin/env python3
"""Regenerate the generated tables of DESIGN.md (between BEGIN/END markers): findings (from known_findings.json) and
seeded changes (from seeded/*/meta.json + seeded/RESULTS.json)."""
import json, os, re
V = os.path.dirname(os.path.dirname(os.path.abspath(__file__)))
k = json.load(open(os.path.join(V, "known_findings.json")))["findings"]
rows = ["| property | unit / instance | defect (failing input) | status |", "|---|---|---|---|"]
for f in k:
    st = "fixed in /repo by `%s`" % f["commit"] if f["status"] == "fixed" else "OPEN (KNOWN-FINDING)"
    rows.append("| %s | %s / %s | %s | %s |" % (f["property"], f["unit"], f["instance"].replace("|", " \\| "), f["what"].replace("|", "\\|"), st))
findings = "\n".join(rows)
res = {}
rp = os.path.join(V, "seeded", "RESULTS.json")
if os.path.exists(rp):
    res = json.load(open(rp))
rows = ["| seed | property | change | needs to manifest | result of the property's check (quick tier) |", "|---|---|---|---|---|"]
for sid in sorted(os.listdir(os.path.join(V, "seeded"))):
    mp = os.path.join(V, "seeded", sid, "meta.json")
    if not os.path.exists(mp):
        continue
    m = json.load(open(mp))
    r = res.get(sid, {})
    out = r.get("result", "not run")
    if r.get("failed_obligations"):
        out += ": " + r["failed_obligations"][0].split(": Check")[0].split(" [")[0][:90]
    if m.get("miss_reason"):
        out += " - " + m["miss_reason"]
    rows.append("| %s | %s | %s | %s | %s |" % (sid, m["property"], m["change"].replace("|", "\\|"), m["needs_to_manifest"].replace("|", "\\|"), out.replace("|", "\\|")))
seeds = "\n".join(rows)
# per-property status from props/*.json and the last evidence written by the checks
claimed = json.load(open(os.path.join(V, "props", "CLAIMED.json")))
rows = ["| property | units (instances in the last run) | obligations discharged / generated | bounded stand-ins (not proof) | links not covered |", "|---|---|---|---|---|"]
for pid in claimed:
    pd = json.load(open(os.path.join(V, "props", pid + ".json")))
    ep = os.path.join(V, "evidence", pid + ".json")
    ev = json.load(open(ep)) if os.path.exists(ep) else None
    units = {}
    if ev:
        for u in ev["coverage"]["units"]:
            units[u["unit"]] = units.get(u["unit"], 0) + 1
    ul = ", ".join("%s (%d)" % (k, v) for k, v in sorted(units.items())) or ", ".join(u["unit"] for u in pd["units"])
    ob = "%d / %d (%s tier, %.0f s)" % (ev["coverage"]["discharged"], ev["coverage"]["obligations"], ev["tier"], ev["wall_s"]) if ev else "-"
    bd = ", ".join(b["name"] for b in pd.get("bounded", [])) or ""
    cap = (ev or {}).get("coverage", {}).get("bounded_by_complete_unwinding_not_counted_as_proof") or {}
    if cap.get("instances"):
        bd = (bd + "; " if bd else "") + "%d instances closed by complete unwinding up to the size cap (%d obligations): %s" % (
            len(cap["instances"]), cap["obligations"], ", ".join(sorted({i.split("/")[0] for i in cap["instances"]})))
    bd = bd or "-"
    nc = "; ".join(x[:110] for x in pd.get("not_covered", [])[:6])
    rows.append("| %s | %s | %s | %s | %s |" % (pid, ul, ob, bd, nc.replace("|", "\\|")))
status = "\n".join(rows)
p = os.path.join(V, "DESIGN.md")
s = open(p).read()
for name, txt in (("FINDINGS", findings), ("SEEDS", seeds), ("STATUS", status)):
    b, e = "<!-- BEGIN %s -->" % name, "<!-- END %s -->" % name
    if b in s:
        s = s[:s.index(b) + len(b)] + "\n" + txt + "\n" + s[s.index(e):]
    else:
        print("marker missing:", name)
open(p, "w").write(s)
print("findings:", len(k), "seeds:", len(rows) - 2)
