#!/bin/bash
# patchtest.sh <patch.diff> <Cxx> [tier]   - run a property's check against a scratch worktree of /repo with an arbitrary patch applied
# (used for the behaviour-preserving refactorings of DESIGN.md 9.4: the expected result is exit 0)
set -u
D=$1; P=$2; TIER=${3:-quick}
WT=/tmp/patchtest_$$
git -C /repo worktree add -q --detach $WT HEAD || exit 2
git -C $WT apply "$D" || { echo "patch does not apply"; git -C /repo worktree remove --force $WT; exit 2; }
cd /verif && VERIF_REPO=$WT bin/check $P --tier $TIER --no-evidence ${ONLY:+--only $ONLY} 2>&1 | cut -c1-400 | tail -${TAIL:-8}
RC=${PIPESTATUS[0]}
git -C /repo worktree remove --force $WT
echo "patch $D on $P: exit $RC"
